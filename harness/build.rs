//! Generates, from the repository's *current* sources, the two pieces of the harness that would otherwise be a
//! hand-kept copy: (1) the `constants` module (same items as /repo/src/constants.rs, only the table capacity hint is
//! made small: it is an allocation hint of `HashMap::with_capacity` with no observable effect, and thousands of
//! `uci_talk` sessions are started); (2) `#[path]` declarations for top-level modules that the repository's main.rs
//! declares and the harness does not know (a refactoring that moves code into a new file must not leave the checks
//! without a verdict).
use std::{env, fs, path::PathBuf};

fn main() {
    let manifest = PathBuf::from(env::var("CARGO_MANIFEST_DIR").unwrap());
    let repo = fs::canonicalize(manifest.join("repo")).expect("harness/repo must point at the repository");
    let out = PathBuf::from(env::var("OUT_DIR").unwrap());
    let src = repo.join("src");
    println!("cargo:rerun-if-changed={}", src.join("constants.rs").display());
    println!("cargo:rerun-if-changed={}", src.join("main.rs").display());
    println!("cargo:rerun-if-changed={}", src.display());
    println!("cargo:rerun-if-changed=build.rs");

    // (1) constants
    let text = fs::read_to_string(src.join("constants.rs")).unwrap_or_default();
    let mut gen = String::new();
    for line in text.lines() {
        let t = line.trim_start();
        if t.starts_with("#![") {
            continue;
        }
        if t.starts_with("//!") {
            gen.push_str(&line.replacen("//!", "//", 1));
            gen.push('\n');
            continue;
        }
        if t.starts_with("pub const TT_CAPACITY") && t.contains(": usize") && t.trim_end().ends_with(';') {
            gen.push_str("pub const TT_CAPACITY: usize = 1 << 10;\n");
            continue;
        }
        gen.push_str(line);
        gen.push('\n');
    }
    fs::write(out.join("constants.rs"), gen).unwrap();

    // (2) unknown top-level modules of the repository
    let known = ["autoplay", "benchmark", "chess", "constants", "performance_test", "search", "uci", "verif_hooks"];
    let main_rs = fs::read_to_string(src.join("main.rs")).unwrap_or_default();
    let mut extra = String::new();
    for line in main_rs.lines() {
        let t = line.trim();
        let t = t.strip_prefix("pub(crate) ").or_else(|| t.strip_prefix("pub ")).unwrap_or(t);
        if let Some(rest) = t.strip_prefix("mod ") {
            if let Some(name) = rest.strip_suffix(';') {
                let name = name.trim();
                if name.chars().all(|c| c.is_alphanumeric() || c == '_') && !known.contains(&name) {
                    let a = src.join(format!("{}.rs", name));
                    let b = src.join(name).join("mod.rs");
                    let p = if a.exists() { a } else { b };
                    if p.exists() {
                        extra.push_str(&format!("#[path = {:?}]\n#[allow(dead_code, unused)]\npub mod {};\n", p.display().to_string(), name));
                    }
                }
            }
        }
    }
    fs::write(out.join("extra_mods.rs"), extra).unwrap();
}
