//! Reference model of the rules of chess (FIDE Laws, Art. 3), written from the
//! Laws and independent of the engine's code. Deliberately boring.
//!
//! Square index = 8*rank + file (a1 = 0, h1 = 7, a8 = 56).
//! Piece codes: 0 = empty, 1 + kind + 6*black, kind order Q,R,B,N,P,K = 0..5
//! (the same numbering the engine's key file and `verif_dump` use, which is
//! part of the published hash layout).

#![allow(dead_code)]

pub const Q: u8 = 0;
pub const R: u8 = 1;
pub const B: u8 = 2;
pub const N: u8 = 3;
pub const P: u8 = 4;
pub const K: u8 = 5;

pub const WK: u8 = 6;
pub const WP: u8 = 5;
pub const BK: u8 = 12;
pub const BP: u8 = 11;

#[inline]
pub fn code(kind: u8, white: bool) -> u8 {
    1 + kind + if white { 0 } else { 6 }
}
#[inline]
pub fn kind_of(c: u8) -> u8 {
    (c - 1) % 6
}
#[inline]
pub fn is_white(c: u8) -> bool {
    c >= 1 && c <= 6
}
#[inline]
pub fn is_black(c: u8) -> bool {
    c >= 7
}
#[inline]
pub fn file_of(sq: u8) -> i8 {
    (sq % 8) as i8
}
#[inline]
pub fn rank_of(sq: u8) -> i8 {
    (sq / 8) as i8
}
#[inline]
pub fn sq(rank: i8, file: i8) -> u8 {
    (rank * 8 + file) as u8
}
pub fn sq_name(s: u8) -> String {
    let mut r = String::new();
    r.push((b'a' + s % 8) as char);
    r.push((b'1' + s / 8) as char);
    r
}
pub fn piece_letter(c: u8) -> char {
    let l = match kind_of(c) {
        Q => 'Q',
        R => 'R',
        B => 'B',
        N => 'N',
        P => 'P',
        _ => 'K',
    };
    if is_white(c) {
        l
    } else {
        l.to_ascii_lowercase()
    }
}

pub const RIGHT_WK: u8 = 1;
pub const RIGHT_WQ: u8 = 2;
pub const RIGHT_BK: u8 = 4;
pub const RIGHT_BQ: u8 = 8;

#[derive(Clone, Copy, PartialEq, Eq, Hash, Debug)]
pub struct Pos {
    pub b: [u8; 64],
    pub white: bool,
    /// bit0 = K, bit1 = Q, bit2 = k, bit3 = q
    pub rights: u8,
    /// en-passant *target square* in the FIDE sense (the square passed over),
    /// present after every double step unless normalised (see `engine_ep_file`)
    pub ep: Option<u8>,
}

#[derive(Clone, Copy, PartialEq, Eq, Hash, Debug)]
pub enum MvKind {
    Normal,
    Double,
    EnPassant,
    CastleShort,
    CastleLong,
    Promotion,
}

#[derive(Clone, Copy, PartialEq, Eq, Hash, Debug)]
pub struct Mv {
    pub from: u8,
    pub to: u8,
    pub kind: MvKind,
    /// moving piece code
    pub piece: u8,
    /// captured piece code (0 if none; the pawn for en passant)
    pub captured: u8,
    /// promotion kind (Q,R,B,N) when kind == Promotion
    pub promo: u8,
}

impl Mv {
    pub fn uci(&self) -> String {
        let mut s = sq_name(self.from);
        s.push_str(&sq_name(self.to));
        if self.kind == MvKind::Promotion {
            s.push(match self.promo {
                Q => 'q',
                R => 'r',
                B => 'b',
                _ => 'n',
            });
        }
        s
    }
}

const KNIGHT_D: [(i8, i8); 8] = [(1, 2), (2, 1), (-1, 2), (-2, 1), (1, -2), (2, -1), (-1, -2), (-2, -1)];
const KING_D: [(i8, i8); 8] = [(1, 0), (1, 1), (0, 1), (-1, 1), (-1, 0), (-1, -1), (0, -1), (1, -1)];
const ROOK_D: [(i8, i8); 4] = [(1, 0), (-1, 0), (0, 1), (0, -1)];
const BISHOP_D: [(i8, i8); 4] = [(1, 1), (1, -1), (-1, 1), (-1, -1)];

#[inline]
fn on_board(r: i8, f: i8) -> bool {
    r >= 0 && r < 8 && f >= 0 && f < 8
}

impl Pos {
    pub fn empty() -> Pos {
        Pos { b: [0; 64], white: true, rights: 0, ep: None }
    }

    pub fn startpos() -> Pos {
        parse_fen_strict("rnbqkbnr/pppppppp/8/8/8/8/PPPPPPPP/RNBQKBNR w KQkq - 0 1").unwrap().pos
    }

    pub fn king_sq(&self, white: bool) -> Option<u8> {
        let k = code(K, white);
        (0..64u8).find(|&s| self.b[s as usize] == k)
    }

    /// Does the piece standing on `from` (of whatever colour) attack `target`?
    /// Geometry is taken from the attacker's side (Art. 3.2-3.8): the scan
    /// starts at the attacker and walks towards the target.
    fn piece_attacks(&self, from: u8, target: u8) -> bool {
        let c = self.b[from as usize];
        if c == 0 || from == target {
            return false;
        }
        let (fr, ff) = (rank_of(from), file_of(from));
        let (tr, tf) = (rank_of(target), file_of(target));
        let (dr, df) = (tr - fr, tf - ff);
        match kind_of(c) {
            P => {
                let dir = if is_white(c) { 1 } else { -1 };
                dr == dir && (df == 1 || df == -1)
            }
            N => (dr.abs() == 1 && df.abs() == 2) || (dr.abs() == 2 && df.abs() == 1),
            K => dr.abs() <= 1 && df.abs() <= 1,
            kind => {
                let straight = dr == 0 || df == 0;
                let diagonal = dr.abs() == df.abs();
                let ok = match kind {
                    R => straight,
                    B => diagonal,
                    _ => straight || diagonal,
                };
                if !ok {
                    return false;
                }
                let (sr, sf) = (dr.signum(), df.signum());
                let (mut r, mut f) = (fr + sr, ff + sf);
                while (r, f) != (tr, tf) {
                    if self.b[sq(r, f) as usize] != 0 {
                        return false;
                    }
                    r += sr;
                    f += sf;
                }
                true
            }
        }
    }

    /// Is `target` attacked by any piece of colour `by_white`?
    pub fn attacked_by(&self, target: u8, by_white: bool) -> bool {
        for s in 0..64u8 {
            let c = self.b[s as usize];
            if c != 0 && is_white(c) == by_white && self.piece_attacks(s, target) {
                return true;
            }
        }
        false
    }

    pub fn in_check(&self, white: bool) -> bool {
        match self.king_sq(white) {
            Some(k) => self.attacked_by(k, !white),
            None => false,
        }
    }

    /// Pseudo-legal moves: correct geometry and occupancy, castling with all
    /// of its conditions (Art. 3.8.2), en passant when the target is set and a
    /// pawn can take it; own king safety NOT considered.
    pub fn pseudo_legal(&self) -> Vec<Mv> {
        let mut out = Vec::with_capacity(48);
        let me = self.white;
        for s in 0..64u8 {
            let c = self.b[s as usize];
            if c == 0 || is_white(c) != me {
                continue;
            }
            let (r, f) = (rank_of(s), file_of(s));
            match kind_of(c) {
                P => {
                    let dir: i8 = if me { 1 } else { -1 };
                    let start_rank = if me { 1 } else { 6 };
                    let last_rank = if me { 7 } else { 0 };
                    let r1 = r + dir;
                    if on_board(r1, f) && self.b[sq(r1, f) as usize] == 0 {
                        self.push_pawn(&mut out, s, sq(r1, f), c, 0, r1 == last_rank);
                        if r == start_rank {
                            let r2 = r + 2 * dir;
                            if self.b[sq(r2, f) as usize] == 0 {
                                out.push(Mv { from: s, to: sq(r2, f), kind: MvKind::Double, piece: c, captured: 0, promo: 0 });
                            }
                        }
                    }
                    for df in [-1i8, 1] {
                        let f1 = f + df;
                        if !on_board(r1, f1) {
                            continue;
                        }
                        let t = sq(r1, f1);
                        let tc = self.b[t as usize];
                        if tc != 0 && is_white(tc) != me {
                            self.push_pawn(&mut out, s, t, c, tc, r1 == last_rank);
                        } else if tc == 0 && self.ep == Some(t) {
                            // the pawn that just made the double step stands beside us
                            let victim = sq(r, f1);
                            let vc = self.b[victim as usize];
                            if vc == code(P, !me) {
                                out.push(Mv { from: s, to: t, kind: MvKind::EnPassant, piece: c, captured: vc, promo: 0 });
                            }
                        }
                    }
                }
                N => {
                    for (dr, df) in KNIGHT_D {
                        let (r1, f1) = (r + dr, f + df);
                        if on_board(r1, f1) {
                            let t = sq(r1, f1);
                            let tc = self.b[t as usize];
                            if tc == 0 || is_white(tc) != me {
                                out.push(Mv { from: s, to: t, kind: MvKind::Normal, piece: c, captured: tc, promo: 0 });
                            }
                        }
                    }
                }
                K => {
                    for (dr, df) in KING_D {
                        let (r1, f1) = (r + dr, f + df);
                        if on_board(r1, f1) {
                            let t = sq(r1, f1);
                            let tc = self.b[t as usize];
                            if tc == 0 || is_white(tc) != me {
                                out.push(Mv { from: s, to: t, kind: MvKind::Normal, piece: c, captured: tc, promo: 0 });
                            }
                        }
                    }
                    self.castling(&mut out, s, c);
                }
                kind => {
                    let dirs: &[(i8, i8)] = match kind {
                        R => &ROOK_D,
                        B => &BISHOP_D,
                        _ => &KING_D,
                    };
                    for &(dr, df) in dirs {
                        let (mut r1, mut f1) = (r + dr, f + df);
                        while on_board(r1, f1) {
                            let t = sq(r1, f1);
                            let tc = self.b[t as usize];
                            if tc == 0 {
                                out.push(Mv { from: s, to: t, kind: MvKind::Normal, piece: c, captured: 0, promo: 0 });
                            } else {
                                if is_white(tc) != me {
                                    out.push(Mv { from: s, to: t, kind: MvKind::Normal, piece: c, captured: tc, promo: 0 });
                                }
                                break;
                            }
                            r1 += dr;
                            f1 += df;
                        }
                    }
                }
            }
        }
        out
    }

    fn push_pawn(&self, out: &mut Vec<Mv>, from: u8, to: u8, c: u8, captured: u8, promotes: bool) {
        if promotes {
            for promo in [Q, R, B, N] {
                out.push(Mv { from, to, kind: MvKind::Promotion, piece: c, captured, promo });
            }
        } else {
            out.push(Mv { from, to, kind: MvKind::Normal, piece: c, captured, promo: 0 });
        }
    }

    /// Art. 3.8.2: king and chosen rook have not moved (rights bit), all
    /// squares between them empty, king not in check, the square the king
    /// crosses and the square it lands on not attacked.
    fn castling(&self, out: &mut Vec<Mv>, king_from: u8, c: u8) {
        let me = self.white;
        let home_rank: i8 = if me { 0 } else { 7 };
        if king_from != sq(home_rank, 4) {
            return;
        }
        let (rk, rq) = if me { (RIGHT_WK, RIGHT_WQ) } else { (RIGHT_BK, RIGHT_BQ) };
        let rook = code(R, me);
        let e = |f: i8| self.b[sq(home_rank, f) as usize] == 0;
        let safe = |f: i8| !self.attacked_by(sq(home_rank, f), !me);
        if self.rights & rk != 0 && self.b[sq(home_rank, 7) as usize] == rook && e(5) && e(6) && safe(4) && safe(5) && safe(6) {
            out.push(Mv { from: king_from, to: sq(home_rank, 6), kind: MvKind::CastleShort, piece: c, captured: 0, promo: 0 });
        }
        if self.rights & rq != 0 && self.b[sq(home_rank, 0) as usize] == rook && e(1) && e(2) && e(3) && safe(4) && safe(3) && safe(2) {
            out.push(Mv { from: king_from, to: sq(home_rank, 2), kind: MvKind::CastleLong, piece: c, captured: 0, promo: 0 });
        }
    }

    /// Successor position (Art. 3; rights lost on king move, rook leaving its
    /// home square, capture on a rook home square; en-passant target after a
    /// double step).
    pub fn apply(&self, m: &Mv) -> Pos {
        let mut n = *self;
        let me = self.white;
        n.ep = None;
        n.b[m.from as usize] = 0;
        match m.kind {
            MvKind::Normal | MvKind::Double => {
                n.b[m.to as usize] = m.piece;
                if m.kind == MvKind::Double {
                    n.ep = Some((m.from + m.to) / 2);
                }
            }
            MvKind::Promotion => {
                n.b[m.to as usize] = code(m.promo, me);
            }
            MvKind::EnPassant => {
                n.b[m.to as usize] = m.piece;
                let victim = sq(rank_of(m.from), file_of(m.to));
                n.b[victim as usize] = 0;
            }
            MvKind::CastleShort => {
                let r = rank_of(m.from);
                n.b[m.to as usize] = m.piece;
                n.b[sq(r, 7) as usize] = 0;
                n.b[sq(r, 5) as usize] = code(R, me);
            }
            MvKind::CastleLong => {
                let r = rank_of(m.from);
                n.b[m.to as usize] = m.piece;
                n.b[sq(r, 0) as usize] = 0;
                n.b[sq(r, 3) as usize] = code(R, me);
            }
        }
        // castling rights
        if kind_of(m.piece) == K {
            n.rights &= if me { !(RIGHT_WK | RIGHT_WQ) } else { !(RIGHT_BK | RIGHT_BQ) };
        }
        for s in [m.from, m.to] {
            match s {
                0 => n.rights &= !RIGHT_WQ,
                7 => n.rights &= !RIGHT_WK,
                56 => n.rights &= !RIGHT_BQ,
                63 => n.rights &= !RIGHT_BK,
                _ => {}
            }
        }
        n.white = !me;
        n
    }

    pub fn legal(&self) -> Vec<Mv> {
        let me = self.white;
        self.pseudo_legal().into_iter().filter(|m| !self.apply(m).in_check(me)).collect()
    }

    pub fn legal_uci_sorted(&self) -> Vec<String> {
        let mut v: Vec<String> = self.legal().iter().map(|m| m.uci()).collect();
        v.sort();
        v
    }

    pub fn is_checkmate(&self) -> bool {
        self.in_check(self.white) && self.legal().is_empty()
    }
    pub fn is_stalemate(&self) -> bool {
        !self.in_check(self.white) && self.legal().is_empty()
    }

    /// The engine's convention for the en-passant file (property C02): the
    /// file of the double-pushed pawn iff an enemy pawn stands beside it.
    pub fn engine_ep_file(&self) -> u8 {
        if let Some(t) = self.ep {
            let f = file_of(t);
            // the pawn that made the double step stands one rank "behind" the target from the mover's view
            let (pawn_rank, capturer) = if self.white { (4, code(P, true)) } else { (3, code(P, false)) };
            // side to move is the capturer
            for df in [-1i8, 1] {
                let f1 = f + df;
                if on_board(pawn_rank, f1) && self.b[sq(pawn_rank, f1) as usize] == capturer {
                    return f as u8;
                }
            }
        }
        8
    }

    /// Drop an en-passant target nobody can use (engine convention).
    pub fn normalised(&self) -> Pos {
        let mut n = *self;
        if self.engine_ep_file() == 8 {
            n.ep = None;
        }
        n
    }

    /// "Sane" in the sense of C01's quantifier.
    pub fn sane(&self) -> bool {
        let mut wk = 0;
        let mut bk = 0;
        for s in 0..64u8 {
            let c = self.b[s as usize];
            if c == WK {
                wk += 1;
            }
            if c == BK {
                bk += 1;
            }
            if c != 0 && kind_of(c) == P && (rank_of(s) == 0 || rank_of(s) == 7) {
                return false;
            }
        }
        if wk != 1 || bk != 1 {
            return false;
        }
        let (w, b) = (self.king_sq(true).unwrap(), self.king_sq(false).unwrap());
        if (rank_of(w) - rank_of(b)).abs() <= 1 && (file_of(w) - file_of(b)).abs() <= 1 {
            return false;
        }
        // side not to move must not be in check
        if self.in_check(!self.white) {
            return false;
        }
        // rights need king and rook at home
        if self.rights & RIGHT_WK != 0 && !(self.b[4] == WK && self.b[7] == code(R, true)) {
            return false;
        }
        if self.rights & RIGHT_WQ != 0 && !(self.b[4] == WK && self.b[0] == code(R, true)) {
            return false;
        }
        if self.rights & RIGHT_BK != 0 && !(self.b[60] == BK && self.b[63] == code(R, false)) {
            return false;
        }
        if self.rights & RIGHT_BQ != 0 && !(self.b[60] == BK && self.b[56] == code(R, false)) {
            return false;
        }
        // ep target only directly after a possible double step
        if let Some(t) = self.ep {
            let r = rank_of(t);
            let f = file_of(t);
            if self.white {
                // black just pushed from rank 7 (index 6) to rank 5 (index 4); target on index 5
                if r != 5 || self.b[sq(4, f) as usize] != code(P, false) || self.b[sq(5, f) as usize] != 0 || self.b[sq(6, f) as usize] != 0 {
                    return false;
                }
            } else if r != 2 || self.b[sq(3, f) as usize] != code(P, true) || self.b[sq(2, f) as usize] != 0 || self.b[sq(1, f) as usize] != 0 {
                return false;
            }
        }
        true
    }

    // ---------------------------------------------------------------- text

    pub fn placement_field(&self) -> String {
        let mut s = String::new();
        for r in (0..8).rev() {
            let mut empty = 0;
            for f in 0..8 {
                let c = self.b[sq(r, f) as usize];
                if c == 0 {
                    empty += 1;
                } else {
                    if empty > 0 {
                        s.push_str(&empty.to_string());
                        empty = 0;
                    }
                    s.push(piece_letter(c));
                }
            }
            if empty > 0 {
                s.push_str(&empty.to_string());
            }
            if r > 0 {
                s.push('/');
            }
        }
        s
    }

    pub fn rights_field(&self) -> String {
        let mut s = String::new();
        if self.rights & RIGHT_WK != 0 {
            s.push('K');
        }
        if self.rights & RIGHT_WQ != 0 {
            s.push('Q');
        }
        if self.rights & RIGHT_BK != 0 {
            s.push('k');
        }
        if self.rights & RIGHT_BQ != 0 {
            s.push('q');
        }
        if s.is_empty() {
            s.push('-');
        }
        s
    }

    /// en-passant field; `fide` = name the target after every double step,
    /// otherwise only when an enemy pawn stands beside the pushed pawn.
    pub fn ep_field(&self, fide: bool) -> String {
        match self.ep {
            Some(t) if fide || self.engine_ep_file() != 8 => sq_name(t),
            _ => "-".to_string(),
        }
    }

    pub fn fen4(&self, fide_ep: bool) -> String {
        format!("{} {} {} {}", self.placement_field(), if self.white { 'w' } else { 'b' }, self.rights_field(), self.ep_field(fide_ep))
    }

    pub fn fen6(&self, fide_ep: bool) -> String {
        format!("{} 0 1", self.fen4(fide_ep))
    }

    /// colour mirror: flip ranks, swap colours, swap side, swap rights
    pub fn mirror(&self) -> Pos {
        let mut n = Pos::empty();
        for s in 0..64u8 {
            let c = self.b[s as usize];
            if c != 0 {
                let t = sq(7 - rank_of(s), file_of(s));
                n.b[t as usize] = if is_white(c) { c + 6 } else { c - 6 };
            }
        }
        n.white = !self.white;
        n.rights = ((self.rights & 3) << 2) | ((self.rights >> 2) & 3);
        n.ep = self.ep.map(|t| sq(7 - rank_of(t), file_of(t)));
        n
    }

    pub fn piece_count(&self) -> usize {
        self.b.iter().filter(|&&c| c != 0).count()
    }

    /// compact, canonical byte key: 32 bytes nibble-packed board + side/rights + engine ep file
    pub fn key(&self) -> [u8; 34] {
        let mut k = [0u8; 34];
        for i in 0..32 {
            k[i] = self.b[2 * i] | (self.b[2 * i + 1] << 4);
        }
        k[32] = self.rights | if self.white { 16 } else { 0 };
        k[33] = self.engine_ep_file();
        k
    }
}

// ------------------------------------------------------------------ FEN reader (strict)

#[derive(Debug, Clone)]
pub struct ParsedFen {
    pub pos: Pos,
    /// file named in the en-passant field (as given in the text), 8 if "-"
    pub ep_file_given: u8,
    pub fields: usize,
    /// deviations from the strict grammar that still have one obvious reading
    /// (a lenient reader may accept them; a strict one may refuse them)
    pub grey: Vec<&'static str>,
}

/// FEN grammar (PGN standard 16.1): 4 to 6 space-separated fields;
/// placement = 8 ranks separated by '/', each rank summing to exactly 8 with
/// digits 1-8; side = "w" | "b"; castling = "-" or a non-empty string over
/// KQkq; en passant = "-" or a square [a-h][36]; optional halfmove clock and
/// fullmove number.
/// Err(reason) = malformed beyond doubt. Ok with non-empty `grey` = debatable
/// (consecutive digits, castling letters repeated or out of KQkq order,
/// en-passant rank not matching the side to move, more than six fields,
/// non-numeric counters). Ok with empty `grey` = strictly well-formed.
pub fn parse_fen(text: &str) -> Result<ParsedFen, String> {
    let fields: Vec<&str> = text.split_ascii_whitespace().collect();
    let mut grey = vec![];
    if fields.len() < 4 {
        return Err(format!("truncated: {} fields", fields.len()));
    }
    if fields.len() > 6 {
        grey.push("more than six fields");
    }
    let mut pos = Pos::empty();
    let ranks: Vec<&str> = fields[0].split('/').collect();
    if ranks.len() != 8 {
        return Err("rank count".into());
    }
    for (i, rank) in ranks.iter().enumerate() {
        let r = 7 - i as i8;
        let mut f = 0i8;
        let mut last_digit = false;
        for ch in rank.chars() {
            if let Some(d) = ch.to_digit(10) {
                if !ch.is_ascii_digit() {
                    return Err("bad character".into());
                }
                if d == 0 || d > 8 {
                    return Err(format!("digit {}", d));
                }
                if last_digit {
                    grey.push("consecutive digits");
                }
                f += d as i8;
                last_digit = true;
            } else {
                last_digit = false;
                if !ch.is_ascii_alphabetic() {
                    return Err("bad character".into());
                }
                let kind = match ch.to_ascii_uppercase() {
                    'Q' => Q,
                    'R' => R,
                    'B' => B,
                    'N' => N,
                    'P' => P,
                    'K' => K,
                    _ => return Err("bad piece letter".into()),
                };
                if f >= 8 {
                    return Err("rank too long".into());
                }
                pos.b[sq(r, f) as usize] = code(kind, ch.is_ascii_uppercase());
                f += 1;
            }
            if f > 8 {
                return Err("rank too long".into());
            }
        }
        if f != 8 {
            return Err("rank too short".into());
        }
    }
    pos.white = match fields[1] {
        "w" => true,
        "b" => false,
        _ => return Err("side".into()),
    };
    if fields[2] != "-" {
        let mut last = -1i32;
        for ch in fields[2].chars() {
            let (bit, ord) = match ch {
                'K' => (RIGHT_WK, 0),
                'Q' => (RIGHT_WQ, 1),
                'k' => (RIGHT_BK, 2),
                'q' => (RIGHT_BQ, 3),
                _ => return Err("castling letter".into()),
            };
            if ord <= last {
                grey.push("castling letters repeated or out of order");
            }
            last = ord;
            pos.rights |= bit;
        }
    }
    let mut ep_file_given = 8;
    if fields[3] != "-" {
        let b = fields[3].as_bytes();
        if b.len() != 2 || !(b'a'..=b'h').contains(&b[0]) {
            return Err("ep square".into());
        }
        if b[1] != b'3' && b[1] != b'6' {
            return Err("ep rank".into());
        }
        let want = if pos.white { b'6' } else { b'3' };
        if b[1] != want {
            grey.push("en-passant rank does not match the side to move");
        }
        ep_file_given = b[0] - b'a';
        pos.ep = Some(sq((want - b'1') as i8, ep_file_given as i8));
    }
    for extra in fields.iter().skip(4).take(2) {
        if extra.is_empty() || !extra.bytes().all(|c| c.is_ascii_digit()) {
            grey.push("non-numeric counter");
        }
    }
    Ok(ParsedFen { pos, ep_file_given, fields: fields.len(), grey })
}

/// strictly well-formed or Err
pub fn parse_fen_strict(text: &str) -> Result<ParsedFen, String> {
    let p = parse_fen(text)?;
    if let Some(g) = p.grey.first() {
        return Err(g.to_string());
    }
    Ok(p)
}

// ------------------------------------------------------------------ Zobrist keys from the published file

pub struct Keys {
    pub side: u64,
    pub empty: u64,
    pub state: [u64; 256],
    pub piece: Vec<[u64; 12]>, // [square][kind + 6*black]
}

impl Keys {
    /// Layout as published (DESIGN.md C04): little-endian u64 at byte offsets:
    /// side key 0, empty-square key 1, state keys 2+8*b, piece keys
    /// 259+8*(12*square+kind). (Yes, the offsets are byte offsets 0,1,2,259 -
    /// overlapping reads of the 8208-byte file; that is the published layout.)
    pub fn load(path: &str) -> Result<Keys, String> {
        let bytes = std::fs::read(path).map_err(|e| format!("{}: {}", path, e))?;
        if bytes.len() != 8208 {
            return Err(format!("{}: {} bytes, expected 8208", path, bytes.len()));
        }
        let rd = |off: usize| u64::from_le_bytes(bytes[off..off + 8].try_into().unwrap());
        let mut state = [0u64; 256];
        for (b, s) in state.iter_mut().enumerate() {
            *s = rd(2 + 8 * b);
        }
        let mut piece = vec![[0u64; 12]; 64];
        for s in 0..64 {
            for k in 0..12 {
                piece[s][k] = rd(259 + 8 * (12 * s + k));
            }
        }
        Ok(Keys { side: rd(0), empty: rd(1), state, piece })
    }

    /// hash of a position with an explicit en-passant nibble (0..7 file, 8 none)
    pub fn hash_with_ep(&self, p: &Pos, ep_nibble: u8) -> u64 {
        let mut h = 0u64;
        for s in 0..64 {
            let c = p.b[s];
            h ^= if c == 0 { self.empty } else { self.piece[s][(c - 1) as usize] };
        }
        if !p.white {
            h ^= self.side;
        }
        let state_byte = (ep_nibble & 15) | (p.rights << 4);
        h ^ self.state[state_byte as usize]
    }

    pub fn hash(&self, p: &Pos) -> u64 {
        self.hash_with_ep(p, p.engine_ep_file())
    }
}

// ------------------------------------------------------------------ piece-square sum (tables are data from the repository)

#[path = "../repo/src/chess/scores.rs"]
#[allow(dead_code)]
pub mod ref_tables;

pub fn table_for(kind: u8, endgame_king: bool) -> &'static [i16; 64] {
    match kind {
        Q => &ref_tables::QUEEN_SCORES,
        R => &ref_tables::ROOK_SCORES,
        B => &ref_tables::BISHOP_SCORES,
        N => &ref_tables::KNIGHT_SCORES,
        P => &ref_tables::PAWN_SCORES,
        _ => {
            if endgame_king {
                &ref_tables::KING_SCORES_END
            } else {
                &ref_tables::KING_SCORES_MIDDLE
            }
        }
    }
}

/// value of one piece on one square: the tables are written from White's
/// point of view with rank 8 first, so White reads them rank-flipped; Black's
/// value is negated.
pub fn psq(c: u8, s: u8, endgame_king: bool) -> i32 {
    let t = table_for(kind_of(c), endgame_king);
    if is_white(c) {
        t[(8 * (7 - rank_of(s)) + file_of(s)) as usize] as i32
    } else {
        -(t[(8 * rank_of(s) + file_of(s)) as usize] as i32)
    }
}

pub fn psq_sum(p: &Pos, endgame_king: bool) -> i32 {
    (0..64u8).filter(|&s| p.b[s as usize] != 0).map(|s| psq(p.b[s as usize], s, endgame_king)).sum()
}

/// sum of absolute piece values, the quantity the endgame threshold is applied to
pub fn psq_abs_sum(p: &Pos, endgame_king: bool) -> i32 {
    (0..64u8).filter(|&s| p.b[s as usize] != 0).map(|s| psq(p.b[s as usize], s, endgame_king).abs()).sum()
}

pub fn endgame_threshold_total() -> i32 {
    2 * ref_tables::ENDGAME_THRESHOLD as i32
}

// ------------------------------------------------------------------ perft & self-test

pub fn perft(p: &Pos, depth: u32) -> u64 {
    if depth == 0 {
        return 1;
    }
    let moves = p.legal();
    if depth == 1 {
        return moves.len() as u64;
    }
    moves.iter().map(|m| perft(&p.apply(m), depth - 1)).sum()
}

/// Published perft numbers (chessprogramming.org "Perft Results").
pub const PERFT_TABLE: &[(&str, &[u64])] = &[
    ("rnbqkbnr/pppppppp/8/8/8/8/PPPPPPPP/RNBQKBNR w KQkq - 0 1", &[20, 400, 8902, 197281, 4865609, 119060324]),
    ("r3k2r/p1ppqpb1/bn2pnp1/3PN3/1p2P3/2N2Q1p/PPPBBPPP/R3K2R w KQkq - 0 1", &[48, 2039, 97862, 4085603, 193690690]),
    ("8/2p5/3p4/KP5r/1R3p1k/8/4P1P1/8 w - - 0 1", &[14, 191, 2812, 43238, 674624, 11030083]),
    ("r3k2r/Pppp1ppp/1b3nbN/nP6/BBP1P3/q4N2/Pp1P2PP/R2Q1RK1 w kq - 0 1", &[6, 264, 9467, 422333, 15833292]),
    ("rnbq1k1r/pp1Pbppp/2p5/8/2B5/8/PPP1NnPP/RNBQK2R w KQ - 1 8", &[44, 1486, 62379, 2103487, 89941194]),
    ("r4rk1/1pp1qppp/p1np1n2/2b1p1B1/2B1P1b1/P1NP1N2/1PP1QPPP/R4RK1 w - - 0 10", &[46, 2079, 89890, 3894594, 164075551]),
];

pub fn rule_cases() -> Vec<(&'static str, &'static str, Vec<&'static str>, Vec<&'static str>)> {
    // (name, fen, moves that must be legal, moves that must NOT be legal)
    vec![
        ("file pin: rook pins knight", "4k3/4r3/8/8/8/8/4N3/4K3 w - - 0 1", vec!["e1d1", "e1f1"], vec!["e2c3", "e2g3", "e2d4"]),
        ("diagonal pin: bishop pins pawn", "4k3/8/8/8/7b/8/5P2/4K3 w - - 0 1", vec!["e1d1"], vec!["f2f3", "f2f4"]),
        ("pinned rook may slide along the pin", "4k3/4r3/8/8/8/8/4R3/4K3 w - - 0 1", vec!["e2e3", "e2e7"], vec!["e2d2", "e2a2"]),
        ("pinned bishop along diagonal", "4k3/8/8/8/7b/6B1/8/4K3 w - - 0 1", vec!["g3h4", "g3f2"], vec!["g3h2", "g3f4"]),
        ("double check: only king moves", "4k3/8/8/8/8/5n2/4r3/4K3 w - - 0 1", vec!["e1f1", "e1d1"], vec![]),
        ("double check no capture of one checker by other piece", "4k3/8/8/1b6/8/8/3Nr3/R3K3 w - - 0 1", vec![], vec!["d2b3"]),
        ("ep legal", "4k3/8/8/3pP3/8/8/8/4K3 w - d6 0 1", vec!["e5d6", "e5e6"], vec![]),
        ("ep rank discovery: both pawns leave the rank", "8/8/8/K2pP2r/8/8/8/4k3 w - d6 0 1", vec!["e5e6"], vec!["e5d6"]),
        ("ep rank discovery black", "4K3/8/8/8/k2Pp2R/8/8/8 b - d3 0 1", vec!["e4e3"], vec!["e4d3"]),
        ("ep: capturer pinned on a diagonal", "7b/8/8/3pP3/8/8/8/K6k w - d6 0 1", vec![], vec!["e5d6", "e5e6"]),
        ("ep: removing the captured pawn opens a diagonal", "6b1/8/8/3pP3/8/8/K7/7k w - d6 0 1", vec!["e5e6"], vec!["e5d6"]),
        ("ep capture removes checking pawn", "8/8/8/3pP3/4K3/8/8/7k w - d6 0 1", vec!["e5d6"], vec![]),
        ("ep pinned capturer on diagonal not through target", "7k/8/8/1KpP3q/8/8/8/8 w - c6 0 1", vec![], vec!["d5c6"]),
        ("ep pinned capturer on file", "3rk3/8/8/2pP4/8/8/8/3K4 w - c6 0 1", vec!["d5d6"], vec!["d5c6"]),
        ("castling both", "r3k2r/8/8/8/8/8/8/R3K2R w KQkq - 0 1", vec!["e1g1", "e1c1"], vec![]),
        ("castling out of check forbidden", "r3k2r/8/8/8/8/8/4r3/R3K2R w KQ - 0 1", vec![], vec!["e1g1", "e1c1"]),
        ("castling through attack forbidden (f1)", "4k3/8/8/8/8/8/5r2/R3K2R w KQ - 0 1", vec!["e1c1"], vec!["e1g1"]),
        ("castling into attack forbidden (g1)", "4k3/8/8/8/8/8/6r1/R3K2R w KQ - 0 1", vec!["e1c1"], vec!["e1g1"]),
        ("castling long with b1 attacked is fine", "4k3/8/8/8/8/8/1r6/R3K2R w KQ - 0 1", vec!["e1c1", "e1g1"], vec![]),
        ("castling long through d1 attacked forbidden", "4k3/8/8/8/8/8/3r4/R3K2R w KQ - 0 1", vec![], vec!["e1c1"]),
        ("castling long c1 attacked forbidden", "4k3/8/8/8/8/8/2r5/R3K2R w KQ - 0 1", vec!["e1g1"], vec!["e1c1"]),
        ("castling blocked b1", "4k3/8/8/8/8/8/8/RN2K2R w KQ - 0 1", vec!["e1g1"], vec!["e1c1"]),
        ("castling needs right", "r3k2r/8/8/8/8/8/8/R3K2R w kq - 0 1", vec![], vec!["e1g1", "e1c1"]),
        ("castling black", "r3k2r/8/8/8/8/8/8/R3K2R b kq - 0 1", vec!["e8g8", "e8c8"], vec![]),
        ("castling: pawn attacks transit square", "4k3/8/8/8/8/8/4p3/R3K2R w KQ - 0 1", vec![], vec!["e1g1", "e1c1"]),
        ("castling: knight attacks g1", "4k3/8/8/8/8/7n/8/R3K2R w KQ - 0 1", vec!["e1c1"], vec!["e1g1"]),
        ("castling: enemy king attacks transit", "8/8/8/8/8/8/6k1/R3K2R w KQ - 0 1", vec!["e1c1"], vec!["e1g1"]),
        ("promotion four ways", "7k/P7/8/8/8/8/8/K7 w - - 0 1", vec!["a7a8q", "a7a8r", "a7a8b", "a7a8n"], vec!["a7a8"]),
        ("promotion capture onto rook home", "1r5k/P7/8/8/8/8/8/K7 w - - 0 1", vec!["a7b8q", "a7b8n", "a7a8q"], vec![]),
        ("black promotion", "7k/8/8/8/8/8/p7/7K b - - 0 1", vec!["a2a1q", "a2a1n"], vec![]),
        ("pawn cannot jump", "4k3/8/8/8/8/4n3/4P3/4K3 w - - 0 1", vec![], vec!["e2e3", "e2e4"]),
        ("pawn double blocked on 4th", "4k3/8/8/8/4n3/8/4P3/4K3 w - - 0 1", vec!["e2e3"], vec!["e2e4"]),
        ("king cannot approach king", "8/8/8/8/8/2k5/8/K7 w - - 0 1", vec!["a1b1", "a1a2"], vec!["a1b2"]),
        ("king cannot capture defended", "8/8/8/8/8/2k5/1q6/K7 w - - 0 1", vec![], vec!["a1b2", "a1b1", "a1a2"]),
        ("king steps back along checking ray forbidden", "4k3/8/8/8/8/8/8/r3K3 w - - 0 1", vec!["e1e2", "e1d2", "e1f2"], vec!["e1f1", "e1d1"]),
        ("block check", "4k3/8/8/8/8/8/3R4/r3K3 w - - 0 1", vec!["d2d1"], vec!["d2d3"]),
        ("capture checker", "4k3/8/8/8/8/8/R7/r3K3 w - - 0 1", vec!["a2a1"], vec!["a2a3"]),
        ("knight check cannot be blocked", "4k3/8/8/8/8/3n4/R7/4K3 w - - 0 1", vec!["e1d1", "e1e2", "e1f1", "e1d2"], vec!["a2d2"]),
        ("stalemate", "7k/5Q2/6K1/8/8/8/8/8 b - - 0 1", vec![], vec!["h8g8", "h8h7"]),
        ("checkmate", "7k/6Q1/6K1/8/8/8/8/8 b - - 0 1", vec![], vec!["h8g8", "h8h7", "h8g7"]),
        ("ep: only immediately (no target set)", "4k3/8/8/3pP3/8/8/8/4K3 w - - 0 1", vec!["e5e6"], vec!["e5d6"]),
    ]
}

/// Validates the model against the literature. depth_cap limits perft depth.
pub fn self_test(max_nodes: u64) -> Result<String, String> {
    let mut total = 0u64;
    for (fen, counts) in PERFT_TABLE {
        let p = parse_fen_strict(fen)?.pos;
        for (i, &want) in counts.iter().enumerate() {
            if want > max_nodes {
                break;
            }
            let got = perft(&p, i as u32 + 1);
            if got != want {
                return Err(format!("model perft mismatch: {} depth {} got {} want {}", fen, i + 1, got, want));
            }
            total += got;
        }
    }
    let cases = rule_cases();
    for (name, fen, yes, no) in &cases {
        let p = parse_fen_strict(fen)?.pos;
        let legal = p.legal_uci_sorted();
        for m in yes {
            if !legal.iter().any(|l| l == m) {
                return Err(format!("model rule case '{}': {} should be legal in {} (legal: {:?})", name, m, fen, legal));
            }
        }
        for m in no {
            if legal.iter().any(|l| l == m) {
                return Err(format!("model rule case '{}': {} should be illegal in {}", name, m, fen));
            }
        }
        if *name == "double check: only king moves" {
            for l in &legal {
                if !l.starts_with("e1") {
                    return Err(format!("model: non-king move {} in double check", l));
                }
            }
        }
        if *name == "stalemate" && !p.is_stalemate() {
            return Err("model: stalemate case".into());
        }
        if *name == "checkmate" && !p.is_checkmate() {
            return Err("model: checkmate case".into());
        }
    }
    Ok(format!("model self-test ok: perft nodes {}, rule cases {}", total, cases.len()))
}
