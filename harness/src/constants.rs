//! Harness copy of the repository's `constants` module: same names. The
//! table capacity is only an allocation hint for HashMap::with_capacity and
//! has no observable effect on behaviour; a small value keeps each of the
//! thousands of `uci_talk` instances cheap.
#![allow(dead_code)]
pub const TT_CAPACITY: usize = 1 << 10;
pub const TESTING_GAME: &str = "";
