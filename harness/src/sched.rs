//! E5: CHESS-style stateless, preemption-bounded exploration of the real
//! `uci_talk` running on real OS threads serialised by a baton (DESIGN.md 2.4).
//! One execution at a time per process; parallelism comes from worker processes.
#![allow(dead_code)]

use crate::verif_hooks::*;
use std::collections::BTreeSet;

#[derive(Clone, Debug, PartialEq)]
pub enum Guard {
    /// deliver as soon as the scheduler lets the GUI step
    Now,
    /// deliver only when the engine is idle from the GUI's point of view: the stdin thread waits for input,
    /// nothing is queued, and every `go` that is due (accepted; not an unstopped `go infinite`) has printed its bestmove
    WhenAnswered,
    /// deliver once the engine has printed at least this many `info depth` lines (a user who acts after seeing output);
    /// while the GUI waits and the command loop is idle, the searching thread is the only runnable one
    AfterInfoLines(usize),
}

#[derive(Clone, Debug)]
pub struct Line {
    pub text: String,
    pub guard: Guard,
}

pub fn line(text: &str, guard: Guard) -> Line {
    Line { text: text.to_string(), guard }
}

#[derive(Clone, Debug)]
pub struct Decision {
    pub enabled: Vec<usize>,
    pub chosen: usize,
    pub costs: Vec<usize>,
}

/// ordered log of everything observable, with the acting thread
#[derive(Clone, Debug, PartialEq)]
pub enum Ev {
    /// GUI put a line on the engine's stdin
    Deliver(String),
    /// stdin thread took the line
    Consume(String),
    /// a thread printed a line
    Out(usize, String),
}

pub struct Exec {
    pub decisions: Vec<Decision>,
    pub log: Vec<Ev>,
    pub verdict: Option<String>,
    pub budgets: Vec<u128>,
    pub names: Vec<&'static str>,
    pub panicked: Vec<&'static str>,
    pub main_ok: bool,
    /// (thread, point name) in execution order
    pub events: Vec<(usize, &'static str)>,
    pub hard_deadlock: bool,
}

pub const GUI: usize = 1000;

impl Exec {
    pub fn choices(&self) -> Vec<usize> {
        self.decisions.iter().map(|d| d.chosen).collect()
    }
    pub fn outputs(&self) -> Vec<String> {
        self.log.iter().filter_map(|e| if let Ev::Out(t, l) = e { Some(format!("{}:{}", t, l)) } else { None }).collect()
    }
    pub fn signature(&self) -> String {
        self.log
            .iter()
            .map(|e| match e {
                Ev::Deliver(l) => format!("> {}", l),
                Ev::Consume(l) => format!("< {}", l),
                Ev::Out(t, l) => format!("{}: {}", t, l),
            })
            .collect::<Vec<_>>()
            .join("\n")
    }
}

/// state of the GUI's view, derived from the scheduler transcript
struct View {
    due_unanswered: bool,
}

fn is_infinite_go(text: &str) -> bool {
    text.starts_with("go") && text.split_whitespace().any(|t| t == "infinite")
}

/// From the log so far: is every due `go` answered? (accepted = consumed and not refused by an error line of the stdin thread)
fn all_due_answered(log: &[Ev]) -> bool {
    let mut accepted: Vec<(bool, bool)> = vec![]; // (infinite, stopped_after)
    let mut i = 0;
    let mut bestmoves = 0usize;
    while i < log.len() {
        match &log[i] {
            Ev::Consume(l) => {
                let word = l.split_whitespace().next().unwrap_or("");
                if word == "go" {
                    // refused iff the stdin thread prints an error before consuming the next line
                    let mut refused = false;
                    let mut j = i + 1;
                    while j < log.len() {
                        match &log[j] {
                            Ev::Consume(_) => break,
                            Ev::Out(0, t) if t.starts_with("error:") => {
                                refused = true;
                                break;
                            }
                            _ => {}
                        }
                        j += 1;
                    }
                    if !refused {
                        accepted.push((is_infinite_go(l), false));
                    }
                } else if word == "stop" || word == "ucinewgame" {
                    for a in accepted.iter_mut() {
                        a.1 = true;
                    }
                }
            }
            Ev::Out(_, t) if t.starts_with("bestmove") => bestmoves += 1,
            _ => {}
        }
        i += 1;
    }
    let due = accepted.iter().filter(|(inf, stopped)| !*inf || *stopped).count();
    bestmoves >= due
}

/// Cost model switch (set per script by the caller): with sleeping timers one deviation buys every firing instant of a
/// timer thread (see the comment in `run`); the exploration of a script then grows by one to two orders of magnitude,
/// so it is used for the scripts that are about timers outliving their search, not for the whole command alphabet.
/// seconds without any schedule event after which the thread holding the baton is taken to be blocked outside the hooks
pub const OUTSIDE_AFTER_SECS: u64 = 8;

pub static SLEEPY_TIMERS: std::sync::atomic::AtomicBool = std::sync::atomic::AtomicBool::new(false);

pub fn run(script: &[Line], prefix: &[usize], horizon: usize) -> Exec {
    *lock() = Some(Sched { active: true, record_events: true, epoch: NEXT_EPOCH.fetch_add(1, std::sync::atomic::Ordering::Relaxed), ..Default::default() });
    let main = std::thread::Builder::new()
        .stack_size(64 << 20)
        .spawn(|| {
            let _scope = ThreadScope::enter("main");
            let r = std::panic::catch_unwind(|| crate::uci::uci_talk());
            matches!(r, Ok(Ok(())))
        })
        .expect("spawn main");
    let mut decisions: Vec<Decision> = vec![];
    let mut next_line = 0usize;
    let mut last: Option<usize> = None;
    let mut verdict: Option<String> = None;
    let mut steps = 0usize;
    let mut log: Vec<Ev> = vec![];
    let mut seen_out = 0usize;
    let mut hard_deadlock = false;
    let mut unwinding = false;
    let mut asleep: Vec<bool> = vec![];
    let mut outside_marks = 0usize;
    let mut idle_polls = 0usize;
    let mut asleep_polls = 0usize;
    let mut outside_waits = 0usize;
    loop {
        let mut g = lock();
        // wait for quiescence: nobody holds the baton, no thread about to be born, everyone parked or finished
        loop {
            let s = g.as_ref().unwrap();
            let quiet = s.current.is_none() && s.expected_spawns == 0 && !s.threads.is_empty() && s.threads.iter().all(|t| t.finished || t.park.is_some() || t.outside);
            if quiet {
                break;
            }
            let events_before = s.events.len();
            let (g2, to) = CV.wait_timeout(g, std::time::Duration::from_millis(25)).unwrap_or_else(|e| e.into_inner());
            g = g2;
            if !to.timed_out() {
                idle_polls = 0;
                asleep_polls = 0;
                continue;
            }
            // Nothing reached a schedule point for 50 ms. If the thread holding the baton is asleep in the kernel for
            // several polls in a row (or nothing at all happens for OUTSIDE_AFTER_SECS), it is blocked in - or busy with -
            // something the hooks do not see: an un-hooked join, lock or channel wait. Waiting for it for ever would hang
            // the explorer; in a real engine the other threads keep running while one of them blocks, so the controller
            // marks it (`outside`) and schedules the others. The mark is cleared when the thread reaches its next point.
            let s = g.as_mut().unwrap();
            if s.events.len() != events_before {
                idle_polls = 0;
                asleep_polls = 0;
                continue;
            }
            idle_polls += 1;
            if s.expected_spawns > 0 {
                // a thread is about to be born (its parent waits for it to register, asleep, with the baton): slow under
                // load, but not blocked
                asleep_polls = 0;
                continue;
            }
            if let Some(i) = s.current {
                if i < s.threads.len() && !s.threads[i].finished && s.threads[i].park.is_none() {
                    match os_thread_state(s.threads[i].tid) {
                        Some('S') => asleep_polls += 1,
                        _ => asleep_polls = 0,
                    }
                    if asleep_polls >= 8 || idle_polls as u64 >= OUTSIDE_AFTER_SECS * 40 {
                        s.threads[i].outside = true;
                        s.current = None;
                        outside_marks += 1;
                        idle_polls = 0;
                        asleep_polls = 0;
                    }
                }
            }
        }
        let s = g.as_mut().unwrap();
        // fold new outputs / consumptions into the ordered log
        while seen_out < s.transcript.len() {
            let (t, l) = &s.transcript[seen_out];
            if *t == usize::MAX {
                log.push(Ev::Consume(l.clone()));
            } else {
                log.push(Ev::Out(*t, l.clone()));
            }
            seen_out += 1;
        }
        if verdict.is_none() {
            if let Some(t) = s.threads.iter().find(|t| t.panicked) {
                verdict = Some(format!("panic in thread '{}'", t.name));
            }
        }
        if s.threads.iter().all(|t| t.finished) {
            break;
        }
        let mut enabled: Vec<usize> = vec![];
        for (i, t) in s.threads.iter().enumerate() {
            if t.finished || t.park.is_none() {
                // finished, or blocked outside the schedule points (see `outside`)
                continue;
            }
            let ok = match &t.park.as_ref().unwrap().0 {
                Park::Start | Park::Plain | Park::Poll => true,
                Park::Input => !s.input.is_empty() || s.eof,
                Park::Lock(p, f) => f(*p),
                Park::Join(id) => s.threads.iter().any(|u| u.std_id == *id && u.finished),
            };
            if ok {
                enabled.push(i);
            }
        }
        let main_done = s.threads[0].finished;
        let main_idle = !main_done && matches!(s.threads[0].park.as_ref().map(|p| &p.0), Some(Park::Input)) && s.input.is_empty();
        if !main_done && !unwinding && next_line <= script.len() {
            let ok = if next_line == script.len() {
                !s.eof && main_idle && all_due_answered(&log)
            } else {
                match script[next_line].guard {
                    Guard::Now => true,
                    Guard::WhenAnswered => main_idle && all_due_answered(&log),
                    Guard::AfterInfoLines(n) => main_idle && log.iter().filter(|e| matches!(e, Ev::Out(_, t) if crate::srch::is_depth_line(t))).count() >= n,
                }
            };
            if ok {
                enabled.push(GUI);
            }
        }
        if main_done && !s.force_stop {
            // the process would exit here; let every remaining thread run to its end
            s.force_stop = true;
            unwinding = true;
        }
        let parked = |s: &Sched| -> String { s.threads.iter().filter(|t| !t.finished).map(|t| format!("{}@{}", t.name, t.park.as_ref().map(|p| p.1).unwrap_or(if t.outside { "<blocked outside the schedule points>" } else { "?" }))).collect::<Vec<_>>().join(", ") };
        if enabled.is_empty() && s.threads.iter().any(|t| t.outside && !t.finished && t.park.is_none()) && outside_waits < 60 {
            // the only thread(s) that could still act are blocked outside the schedule points: what they wait for may just
            // have happened (a joined thread has ended). Give them time to come back before calling it a deadlock.
            outside_waits += 1;
            drop(g);
            std::thread::sleep(std::time::Duration::from_millis(50));
            continue;
        }
        outside_waits = 0;
        if enabled.is_empty() {
            if !unwinding {
                verdict.get_or_insert(format!("nobody can make progress: the GUI is still waiting (next line #{} {:?}) while the engine threads are blocked: [{}]", next_line, script.get(next_line).map(|l| l.text.as_str()).unwrap_or("<EOF>"), parked(s)));
                s.force_stop = true;
                s.eof = true;
                s.input.clear();
                unwinding = true;
                continue;
            }
            hard_deadlock = true;
            verdict.get_or_insert(format!("hard deadlock: threads blocked for good: [{}]", parked(s)));
            break;
        }
        let pollers: Vec<usize> = enabled.iter().copied().filter(|&i| i != GUI && matches!(s.threads[i].park.as_ref().unwrap().0, Park::Poll)).collect();
        let normals: Vec<usize> = enabled.iter().copied().filter(|i| !pollers.contains(i)).collect();
        if normals.is_empty() {
            steps += 1;
        } else {
            steps = 0;
        }
        if steps > horizon && !unwinding {
            verdict.get_or_insert(format!("a search is running and nothing is left that could ever stop it (only the search thread is runnable for {} consecutive polls, its flag is up): [{}]", horizon, parked(s)));
            s.force_stop = true;
            s.eof = true;
            s.input.clear();
            unwinding = true;
        }
        // sleeping timers: a timer thread that has once been passed over in favour of the polling search thread (that
        // choice cost one deviation) is "asleep" - in real time a timer IS asleep for its whole budget, so letting the
        // search poll on while it sleeps is not a further deviation, and it may fire (run) at any later decision for free.
        // One deviation therefore buys every firing instant, not only the earliest ones.
        while asleep.len() < s.threads.len() {
            asleep.push(false);
        }
        let sleepy_on = SLEEPY_TIMERS.load(std::sync::atomic::Ordering::Relaxed);
        let sleepy: Vec<usize> = normals.iter().copied().filter(|&i| sleepy_on && i != GUI && asleep[i] && s.threads[i].name == "timer").collect();
        let awake: Vec<usize> = normals.iter().copied().filter(|i| !sleepy.contains(i)).collect();
        // canonical order with deviation costs (poll = yield fairness model)
        let mut order: Vec<usize> = vec![];
        let mut costs: Vec<usize> = vec![];
        let run_norm = last.map_or(false, |l| awake.contains(&l));
        if run_norm {
            let l = last.unwrap();
            order.push(l);
            costs.push(0);
            for &n in &normals {
                if n != l {
                    order.push(n);
                    // a sleeping timer going off is an event of the outside world (time passing), not a preemption
                    costs.push(if sleepy.contains(&n) { 0 } else { 1 });
                }
            }
            for &q in &pollers {
                order.push(q);
                costs.push(1);
            }
        } else if !awake.is_empty() {
            for &n in &normals {
                order.push(n);
                costs.push(0);
            }
            for &q in &pollers {
                order.push(q);
                costs.push(1);
            }
        } else {
            // only pollers (and sleeping timers) can run
            let l = last.filter(|l| pollers.contains(l));
            if let Some(l) = l {
                order.push(l);
                costs.push(0);
            }
            for &q in &pollers {
                if Some(q) != l {
                    order.push(q);
                    costs.push(if l.is_some() { 1 } else { 0 });
                }
            }
            for &t in &sleepy {
                order.push(t);
                costs.push(0);
            }
        }
        let idx = if decisions.len() < prefix.len() && !unwinding {
            let c = prefix[decisions.len()];
            if c >= order.len() {
                // divergence while replaying a prefix: hard machinery error
                verdict = Some(format!("MACHINERY: replay divergence at decision {} (choice {} of {})", decisions.len(), c, order.len()));
                s.force_stop = true;
                s.eof = true;
                s.input.clear();
                unwinding = true;
                0
            } else {
                c
            }
        } else {
            0
        };
        let choice = order[idx];
        if !unwinding {
            decisions.push(Decision { enabled: order.clone(), chosen: idx, costs });
        }
        if choice != GUI && pollers.contains(&choice) {
            for &n in &awake {
                if n != GUI && s.threads[n].name == "timer" {
                    asleep[n] = true;
                }
            }
        }
        last = Some(choice);
        if choice == GUI {
            // a script line "<EOF>" closes the input at that moment (under its own guard) instead of at the end, when
            // everything due has been answered
            if next_line == script.len() || script[next_line].text == "<EOF>" {
                s.eof = true;
                log.push(Ev::Deliver("<EOF>".into()));
            } else {
                s.input.push_back(script[next_line].text.clone());
                log.push(Ev::Deliver(script[next_line].text.clone()));
            }
            next_line += 1;
            continue;
        }
        s.current = Some(choice);
        drop(g);
        CV.notify_all();
    }
    let main_ok = if hard_deadlock { false } else { main.join().unwrap_or(false) };
    let mut g = lock();
    let s = g.take().unwrap();
    Exec {
        decisions,
        log,
        verdict,
        budgets: s.budgets,
        names: s.threads.iter().map(|t| t.name).collect(),
        panicked: s.threads.iter().filter(|t| t.panicked).map(|t| t.name).collect(),
        main_ok,
        events: s.events,
        hard_deadlock,
    }
}

pub struct Explored {
    pub executions: u64,
    pub decisions: u64,
    /// (choice list, verdict text) — first few, simplest first (fewest deviations found first by construction)
    pub violations: Vec<(Vec<usize>, String)>,
    pub n_violations: u64,
    pub outcomes: BTreeSet<String>,
    pub machinery: Vec<String>,
    pub max_threads: usize,
}

/// Iterative deviation bounding: explore every schedule whose accumulated deviation cost is <= bound.
pub fn explore(script: &[Line], bound: usize, horizon: usize, oracle: &dyn Fn(&Exec) -> Option<String>, cap_execs: u64) -> Explored {
    let mut res = Explored { executions: 0, decisions: 0, violations: vec![], n_violations: 0, outcomes: BTreeSet::new(), machinery: vec![], max_threads: 0 };
    // iterate the bound so that the first counterexample has the fewest deviations
    let mut seen_prefixes: BTreeSet<Vec<usize>> = BTreeSet::new();
    for b in 0..=bound {
        let mut stack: Vec<Vec<usize>> = vec![vec![]];
        while let Some(prefix) = stack.pop() {
            let e = run(script, &prefix, horizon);
            if e.hard_deadlock {
                res.violations.push((e.choices(), e.verdict.clone().unwrap_or_default()));
                res.n_violations += 1;
                res.machinery.push("HARD-DEADLOCK".into());
                return res;
            }
            let first_time = seen_prefixes.insert(e.choices());
            let mut cost = 0usize;
            let mut costs_before = vec![];
            for d in &e.decisions {
                costs_before.push(cost);
                cost += d.costs[d.chosen];
            }
            if first_time {
                res.executions += 1;
                res.decisions += e.decisions.len() as u64;
                res.max_threads = res.max_threads.max(e.names.len());
                if res.outcomes.len() < 64 {
                    res.outcomes.insert(e.outputs().iter().filter(|l| !l.contains("info ")).cloned().collect::<Vec<_>>().join(" | "));
                }
                let v = match &e.verdict {
                    Some(v) if v.starts_with("MACHINERY") => {
                        res.machinery.push(v.clone());
                        None
                    }
                    Some(v) => Some(v.clone()),
                    None => oracle(&e),
                };
                if let Some(v) = v {
                    // determinism: the same schedule must fail the same way, twice
                    let r1 = run(script, &e.choices(), horizon);
                    let r2 = run(script, &e.choices(), horizon);
                    if r1.signature() != e.signature() || r2.signature() != e.signature() {
                        res.machinery.push(format!("schedule {:?} does not replay deterministically", e.choices()));
                    } else {
                        res.n_violations += 1;
                        if res.violations.len() < 3 {
                            res.violations.push((e.choices(), v));
                        }
                    }
                }
                // eight failing schedules of one script characterise the defect; exploring (and replaying twice) every
                // further one only costs time - most of all when each failing execution has to wait for a blocked thread
                if res.n_violations >= 8 {
                    return res;
                }
                if res.executions >= cap_execs {
                    res.machinery.push(format!("CAP: execution cap {} hit", cap_execs));
                    return res;
                }
            }
            // branch on every alternative beyond the prefix whose total cost stays within the bound
            for i in prefix.len()..e.decisions.len() {
                let d = &e.decisions[i];
                for alt in 1..d.enabled.len() {
                    let c = costs_before[i] + d.costs[alt];
                    if c > b {
                        continue;
                    }
                    let mut p: Vec<usize> = e.decisions[..i].iter().map(|d| d.chosen).collect();
                    p.push(alt);
                    stack.push(p);
                }
            }
        }
        if !res.violations.is_empty() {
            break;
        }
    }
    res
}
