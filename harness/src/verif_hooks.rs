//! Harness side of the hooks the repository calls under
//! `--cfg daniel729_chess_verif` (same signatures as /repo/src/verif_hooks.rs).
//!
//! Two modes:
//!  * sequential ("seq"): a thread-local context owned by the calling worker
//!    thread: captured output, scripted stdin, poll counter / stop point /
//!    depth monitor / table-less switch for searches run on that thread;
//!  * scheduler ("sched"): the global baton scheduler of E5 (see sched.rs);
//!    threads register through `ThreadScope::enter`.
#![allow(dead_code)]

use std::cell::{Cell, RefCell};
use std::collections::VecDeque;
use std::sync::atomic::{AtomicBool, Ordering::Relaxed};
use std::sync::{Condvar, Mutex, MutexGuard};
use std::thread::{JoinHandle, ThreadId};
use std::time::Duration;

// ---------------------------------------------------------------- sequential mode

pub struct SeqCtx {
    pub transcript: Vec<String>,
    pub partial: String,
    pub input: VecDeque<String>,
    /// node-entry polls seen so far
    pub polls: u64,
    /// flip the flag to false when `polls` (0-based index of the poll) reaches this value
    pub stop_at: u64,
    /// flip when this many polls have been seen since the flag was last seen raised afresh (autoplay)
    pub per_search_budget: u64,
    pub polls_this_search: u64,
    /// polls observed after we flipped the flag (must stay 1: the poll that sees `false`)
    pub polls_after_stop: u64,
    pub stopped: bool,
    /// iteration depth (remaining + real) above which a poll is a "searched deeper" verdict
    pub depth_limit: u32,
    pub deeper_seen: bool,
    pub max_iter_depth: u32,
    pub max_real_depth: u32,
    pub tableless: bool,
    pub budgets: Vec<u128>,
    /// hard cap on polls: beyond it the flag is flipped and `watchdog_fired` set
    pub watchdog: u64,
    pub watchdog_fired: bool,
    /// self-play: number of distinct searches seen (a new stop flag = a new search) and the horizon at which the run is abandoned
    pub searches_seen: u64,
    pub last_flag: usize,
    pub autoplay_horizon: u64,
    /// poll count at the moment each `info depth` line was printed (iteration boundaries of the driver)
    pub iter_marks: Vec<u64>,
    /// indices of the polls made on entering a node one ply below the root, and of the first three polls two plies
    /// below it after each of those (the nodes an interrupted iteration shares with the stored principal variation)
    pub shallow_polls: Vec<u64>,
    pub shallow_since: u8,
}

impl SeqCtx {
    pub fn new() -> SeqCtx {
        SeqCtx {
            transcript: Vec::new(),
            partial: String::new(),
            input: VecDeque::new(),
            polls: 0,
            stop_at: u64::MAX,
            per_search_budget: u64::MAX,
            polls_this_search: 0,
            polls_after_stop: 0,
            stopped: false,
            depth_limit: u32::MAX,
            deeper_seen: false,
            max_iter_depth: 0,
            max_real_depth: 0,
            tableless: false,
            budgets: Vec::new(),
            watchdog: u64::MAX,
            watchdog_fired: false,
            searches_seen: 0,
            last_flag: 0,
            autoplay_horizon: u64::MAX,
            iter_marks: Vec::new(),
            shallow_polls: Vec::new(),
            shallow_since: 0,
        }
    }
    pub fn with_input(lines: &[&str]) -> SeqCtx {
        let mut c = SeqCtx::new();
        c.input = lines.iter().map(|s| s.to_string()).collect();
        c
    }
}

type SharedSeq = std::sync::Arc<Mutex<SeqCtx>>;

thread_local! {
    /// the sequential context of this thread; engine threads spawned from it (search, timer) adopt the same one
    static SEQ: RefCell<Option<SharedSeq>> = const { RefCell::new(None) };
    static SCHED_ME: Cell<Option<usize>> = const { Cell::new(None) };
    /// the execution (sched::run call) this thread was registered in
    static SCHED_EPOCH: Cell<u64> = const { Cell::new(0) };
}

/// hand-over slot parent -> freshly spawned child (at most one unregistered child exists at any time, see will_spawn)
static HANDOFF: Mutex<Option<SharedSeq>> = Mutex::new(None);
static HANDOFF_CV: Condvar = Condvar::new();

fn my_seq() -> Option<SharedSeq> {
    SEQ.with(|s| s.borrow().clone())
}
fn seq_lock(a: &SharedSeq) -> MutexGuard<'_, SeqCtx> {
    a.lock().unwrap_or_else(|e| e.into_inner())
}

pub fn seq_begin(ctx: SeqCtx) {
    SEQ.with(|s| *s.borrow_mut() = Some(std::sync::Arc::new(Mutex::new(ctx))));
}
pub fn seq_end() -> SeqCtx {
    let a = SEQ.with(|s| s.borrow_mut().take().expect("seq_end without seq_begin"));
    let mut g = seq_lock(&a);
    std::mem::replace(&mut *g, SeqCtx::new())
}
pub fn seq_active() -> bool {
    SEQ.with(|s| s.borrow().is_some())
}
pub fn with_seq<R>(f: impl FnOnce(&mut SeqCtx) -> R) -> R {
    let a = my_seq().expect("no seq context");
    let mut g = seq_lock(&a);
    f(&mut g)
}
/// run `f` with a fresh sequential context and return (result, context)
pub fn in_seq<R>(ctx: SeqCtx, f: impl FnOnce() -> R) -> (R, SeqCtx) {
    seq_begin(ctx);
    let r = f();
    (r, seq_end())
}

// ---------------------------------------------------------------- output capture (println!/print! shadows)

pub fn emit(part: bool, text: String) {
    if let Some(a) = my_seq() {
        let mut c = seq_lock(&a);
        if part {
            c.partial.push_str(&text);
        } else {
            let mut l = std::mem::take(&mut c.partial);
            l.push_str(&text);
            if crate::srch::is_depth_line(&l) {
                let p = c.polls;
                c.iter_marks.push(p);
            }
            // a single println! may contain embedded newlines (Display for Game)
            c.transcript.push(l);
        }
        return;
    }
    if let Some(me) = sched_me() {
        let mut g = lock();
        if let Some(s) = g.as_mut() {
            if part {
                s.partial.push_str(&text);
            } else {
                let mut l = std::mem::take(&mut s.partial);
                l.push_str(&text);
                s.transcript.push((me, l));
            }
            return;
        }
    }
    // not captured: surface it (should not happen in a check)
    eprintln!("[uncaptured engine output] {}", text);
}

// ---------------------------------------------------------------- scheduler state (driven by sched.rs)

#[derive(Clone, Debug)]
pub enum Park {
    Start,
    Plain,
    Poll,
    Input,
    Lock(usize, fn(usize) -> bool),
    Join(ThreadId),
}

pub struct Th {
    pub name: &'static str,
    pub std_id: ThreadId,
    pub park: Option<(Park, &'static str)>,
    pub finished: bool,
    pub panicked: bool,
    /// the thread held the baton and did not come back to a schedule point in time: it is blocked in (or busy with)
    /// something the hooks do not see - an un-hooked join, lock or channel wait. The controller schedules the others;
    /// the mark is cleared when the thread reaches its next point.
    pub outside: bool,
    /// kernel thread id (Linux; 0 if unknown): lets the controller see whether the baton holder is asleep in the kernel
    pub tid: u32,
}

#[derive(Default)]
pub struct Sched {
    pub active: bool,
    pub threads: Vec<Th>,
    pub current: Option<usize>,
    pub expected_spawns: usize,
    pub input: VecDeque<String>,
    pub eof: bool,
    pub transcript: Vec<(usize, String)>,
    pub partial: String,
    pub budgets: Vec<u128>,
    pub force_stop: bool,
    pub polls: u64,
    /// polls seen by each thread index after the flag it polls was observed false... (see sched.rs)
    pub events: Vec<(usize, &'static str)>,
    pub record_events: bool,
    /// identifies the execution (sched::run call) this state belongs to
    pub epoch: u64,
}

/// kernel id of the calling thread, read from /proc/thread-self ("<pid>/task/<tid>"); 0 where that does not exist
pub fn os_tid() -> u32 {
    std::fs::read_link("/proc/thread-self").ok().and_then(|p| p.file_name().and_then(|f| f.to_str().and_then(|t| t.parse().ok()))).unwrap_or(0)
}

/// scheduling state letter of a thread of this process (R running/runnable, S sleeping, D disk wait ...), if readable
pub fn os_thread_state(tid: u32) -> Option<char> {
    if tid == 0 {
        return None;
    }
    let t = std::fs::read_to_string(format!("/proc/self/task/{}/stat", tid)).ok()?;
    // "<tid> (<comm>) <state> ...": comm may contain spaces and parentheses, the state follows the LAST ')'
    t[t.rfind(')')? + 1..].trim_start().chars().next()
}

pub static NEXT_EPOCH: std::sync::atomic::AtomicU64 = std::sync::atomic::AtomicU64::new(1);

/// A thread left over from an abandoned execution (hard deadlock: its threads could not be unwound) must never act in
/// a later execution of the same process - its index would alias a live thread's. It is parked for good.
fn stale_forever() -> ! {
    loop {
        std::thread::park();
    }
}

/// this thread's index in the running execution; None if it is not a scheduled thread
fn sched_me() -> Option<usize> {
    let me = SCHED_ME.with(|m| m.get())?;
    let mine = SCHED_EPOCH.with(|e| e.get());
    let g = lock();
    match g.as_ref() {
        Some(s) if s.epoch == mine => Some(me),
        // another execution is running, or none at all (the one this thread belonged to is over): a leftover
        _ => {
            drop(g);
            stale_forever()
        }
    }
}

pub static S: Mutex<Option<Sched>> = Mutex::new(None);
pub static CV: Condvar = Condvar::new();

pub fn lock() -> MutexGuard<'static, Option<Sched>> {
    S.lock().unwrap_or_else(|e| e.into_inner())
}

fn park(kind: Park, name: &'static str) {
    let Some(me) = sched_me() else { return };
    let my_epoch = SCHED_EPOCH.with(|e| e.get());
    let mut g = lock();
    match g.as_mut() {
        Some(s) if s.active => {
            s.threads[me].park = Some((kind, name));
            s.threads[me].outside = false;
            if s.current == Some(me) || s.current.is_none() {
                s.current = None;
            }
            if s.record_events {
                s.events.push((me, name));
            }
        }
        _ => return,
    }
    CV.notify_all();
    loop {
        g = CV.wait(g).unwrap_or_else(|e| e.into_inner());
        match g.as_ref() {
            Some(s) if s.epoch != my_epoch => {
                drop(g);
                stale_forever()
            }
            Some(s) if s.active => {
                if s.current == Some(me) {
                    break;
                }
            }
            _ => return,
        }
    }
    g.as_mut().unwrap().threads[me].park = None;
}

pub fn point(name: &'static str) {
    park(Park::Plain, name)
}

pub fn point_lock<T>(name: &'static str, m: &std::sync::Mutex<T>) {
    fn probe<T>(p: usize) -> bool {
        // SAFETY: the mutex outlives every parked thread that refers to it (it is owned by an Arc the parked thread holds)
        let m = unsafe { &*(p as *const std::sync::Mutex<T>) };
        match m.try_lock() {
            Ok(_) => true,
            Err(std::sync::TryLockError::Poisoned(_)) => true,
            Err(std::sync::TryLockError::WouldBlock) => false,
        }
    }
    park(Park::Lock(m as *const _ as usize, probe::<T>), name)
}

pub fn point_join<T>(name: &'static str, h: &JoinHandle<T>) {
    park(Park::Join(h.thread().id()), name)
}

pub fn will_spawn() {
    if let Some(a) = my_seq() {
        // sequential mode: the child adopts this thread's context. One slot, filled only when empty, so the
        // child that empties it is necessarily ours (no other unregistered child can exist meanwhile).
        let mut h = HANDOFF.lock().unwrap_or_else(|e| e.into_inner());
        while h.is_some() {
            h = HANDOFF_CV.wait(h).unwrap_or_else(|e| e.into_inner());
        }
        *h = Some(a);
        return;
    }
    if sched_me().is_none() {
        return;
    }
    let mut g = lock();
    // two spawns without a schedule point in between (timer, then search): wait until the earlier child has
    // registered, so that thread indices do not depend on OS timing
    loop {
        match g.as_ref() {
            Some(s) if s.active && s.expected_spawns > 0 => {
                g = CV.wait(g).unwrap_or_else(|e| e.into_inner());
            }
            _ => break,
        }
    }
    if let Some(s) = g.as_mut() {
        if s.active {
            s.expected_spawns += 1;
        }
    }
}

pub fn timer_override(t: Duration) -> Duration {
    if let Some(a) = my_seq() {
        seq_lock(&a).budgets.push(t.as_millis());
        return Duration::ZERO;
    }
    if sched_me().is_some() {
        let mut g = lock();
        if let Some(s) = g.as_mut() {
            s.budgets.push(t.as_millis());
        }
        return Duration::ZERO;
    }
    t
}

pub struct ThreadScope {
    registered: bool,
    adopted_seq: bool,
}

impl ThreadScope {
    pub fn enter(name: &'static str) -> ThreadScope {
        // sequential mode: adopt the parent's context if one is waiting in the hand-over slot
        {
            let mut h = HANDOFF.lock().unwrap_or_else(|e| e.into_inner());
            if let Some(a) = h.take() {
                SEQ.with(|s| *s.borrow_mut() = Some(a));
                drop(h);
                HANDOFF_CV.notify_all();
                return ThreadScope { registered: false, adopted_seq: true };
            }
        }
        let mut registered = false;
        {
            let mut g = lock();
            if let Some(s) = g.as_mut() {
                if s.active {
                    s.threads.push(Th { name, std_id: std::thread::current().id(), park: None, finished: false, panicked: false, outside: false, tid: os_tid() });
                    let idx = s.threads.len() - 1;
                    SCHED_ME.with(|m| m.set(Some(idx)));
                    SCHED_EPOCH.with(|e| e.set(s.epoch));
                    if name != "main" {
                        s.expected_spawns -= 1;
                    }
                    registered = true;
                }
            }
        }
        if registered {
            park(Park::Start, name);
        }
        ThreadScope { registered, adopted_seq: false }
    }
}

impl Drop for ThreadScope {
    fn drop(&mut self) {
        if self.adopted_seq {
            SEQ.with(|s| *s.borrow_mut() = None);
            return;
        }
        if !self.registered {
            return;
        }
        let me = SCHED_ME.with(|m| m.take());
        let my_epoch = SCHED_EPOCH.with(|e| e.get());
        let mut g = lock();
        if let (Some(s), Some(me)) = (g.as_mut(), me) {
            if s.epoch == my_epoch && me < s.threads.len() {
                s.threads[me].finished = true;
                if s.record_events {
                    s.events.push((me, "exit"));
                }
                s.threads[me].panicked = std::thread::panicking();
                s.threads[me].park = None;
                if s.current == Some(me) {
                    s.current = None;
                }
            }
        }
        drop(g);
        CV.notify_all();
    }
}

pub fn on_node(flag: &AtomicBool, table: &mut crate::search::TranspositionTable, rem: u8, real: u8) {
    let seq = {
        if let Some(a) = my_seq() {
            let mut guard = seq_lock(&a);
            let c = &mut *guard;
            let ptr = flag as *const AtomicBool as usize;
            if ptr != c.last_flag {
                c.last_flag = ptr;
                c.searches_seen += 1;
                c.polls_this_search = 0;
                if c.searches_seen > c.autoplay_horizon {
                    panic!("VERIF-HORIZON reached after {} searches", c.searches_seen - 1);
                }
            }
            let it = rem as u32 + real as u32;
            if it > c.max_iter_depth {
                c.max_iter_depth = it;
            }
            if real as u32 > c.max_real_depth {
                c.max_real_depth = real as u32;
            }
            if c.shallow_polls.len() < 20_000 {
                if real <= 1 {
                    let p = c.polls;
                    c.shallow_polls.push(p);
                    c.shallow_since = 0;
                } else if real == 2 && c.shallow_since < 3 {
                    let p = c.polls;
                    c.shallow_polls.push(p);
                    c.shallow_since += 1;
                }
            }
            if c.stopped {
                c.polls_after_stop += 1;
            }
            if it > c.depth_limit && !c.deeper_seen {
                c.deeper_seen = true;
                flag.store(false, Relaxed);
                c.stopped = true;
            }
            if c.polls >= c.stop_at && !c.stopped {
                flag.store(false, Relaxed);
                c.stopped = true;
            }
            if c.per_search_budget != u64::MAX {
                if c.polls_this_search >= c.per_search_budget {
                    flag.store(false, Relaxed);
                    c.polls_this_search = 0;
                } else {
                    c.polls_this_search += 1;
                }
            }
            if c.polls >= c.watchdog && !c.watchdog_fired {
                c.watchdog_fired = true;
                flag.store(false, Relaxed);
                c.stopped = true;
            }
            c.polls += 1;
            if c.tableless {
                table.clear();
            }
            true
        } else {
            false
        }
    };
    if seq {
        return;
    }
    if sched_me().is_some() {
        {
            let mut g = lock();
            if let Some(s) = g.as_mut() {
                s.polls += 1;
                if s.force_stop {
                    flag.store(false, Relaxed);
                }
            }
        }
        park(Park::Poll, "poll");
    }
}

// ---------------------------------------------------------------- scripted stdin

pub struct In;
pub struct Lines;
pub fn stdin() -> In {
    In
}
impl In {
    pub fn lines(self) -> Lines {
        Lines
    }
}
impl Iterator for Lines {
    type Item = std::io::Result<String>;
    fn next(&mut self) -> Option<Self::Item> {
        if let Some(a) = my_seq() {
            return seq_lock(&a).input.pop_front().map(Ok);
        }
        if sched_me().is_some() {
            park(Park::Input, "stdin");
            let mut g = lock();
            return match g.as_mut() {
                Some(s) => {
                    let l = s.input.pop_front();
                    if let Some(l) = &l {
                        // consumption marker in the ordered transcript (thread id usize::MAX)
                        s.transcript.push((usize::MAX, l.clone()));
                    }
                    l.map(Ok)
                }
                None => None,
            };
        }
        None
    }
}
