//! Verdict handling: known findings, replay artefacts, VIOLATION lines, evidence files.
#![allow(dead_code)]

use crate::explore::{Acc, SpaceReport};
use crate::json::{self, J};
use std::time::Instant;

pub fn verif_dir() -> String {
    std::env::var("VERIF_DIR").unwrap_or_else(|_| "/verif".to_string())
}

pub struct Outcome {
    pub acc: Acc,
    pub spaces: Vec<SpaceReport>,
    /// how cases are enumerated (goes into coverage.rule)
    pub rule: String,
    pub assumptions: Vec<String>,
    /// true iff every named space was enumerated completely (no cap hit)
    pub exhaustive: bool,
    pub caps: Vec<String>,
    pub extra: Vec<(String, J)>,
    /// number of model traces / transitions / executions that were replayed against the real code
    pub traces_validated: u64,
}

impl Outcome {
    pub fn new(acc: Acc, spaces: Vec<SpaceReport>, rule: &str) -> Outcome {
        Outcome { acc, spaces, rule: rule.to_string(), assumptions: vec![], exhaustive: true, caps: vec![], extra: vec![], traces_validated: 0 }
    }
}

pub struct Known {
    pub findings: Vec<(String, String, String)>, // property, key, what
}

pub fn load_known() -> Result<Known, String> {
    let path = format!("{}/known_findings.json", verif_dir());
    let text = match std::fs::read_to_string(&path) {
        Ok(t) => t,
        Err(_) => return Ok(Known { findings: vec![] }),
    };
    let j = json::parse(&text).map_err(|e| format!("{}: {}", path, e))?;
    let mut findings = vec![];
    if let Some(a) = j.get("findings").and_then(|x| x.as_arr()) {
        for f in a {
            findings.push((
                f.get("property").and_then(|x| x.as_str()).unwrap_or("").to_string(),
                f.get("key").and_then(|x| x.as_str()).unwrap_or("").to_string(),
                f.get("what").and_then(|x| x.as_str()).unwrap_or("").to_string(),
            ));
        }
    }
    Ok(Known { findings })
}

/// Finish a check: print verdict lines, write evidence, return the process exit code.
pub fn finish(prop: &str, tier: &str, seed: i64, t0: Instant, out: Outcome, model_note: &str) -> i32 {
    let wall = t0.elapsed().as_secs_f64();
    let known = match load_known() {
        Ok(k) => k,
        Err(e) => {
            out!("MACHINERY-ERROR: {}", e);
            return 2;
        }
    };
    if !out.acc.errors.is_empty() {
        for e in out.acc.errors.iter().take(10) {
            out!("MACHINERY-ERROR: {}", e);
        }
        out!("check {} aborted: {} machinery error(s); no verdict, evidence not written as a pass", prop, out.acc.errors.len());
        return 2;
    }
    let _ = std::fs::create_dir_all(format!("{}/replays", verif_dir()));
    let _ = std::fs::create_dir_all(format!("{}/evidence", verif_dir()));

    let mut unknown = vec![];
    let mut known_hit = vec![];
    for v in &out.acc.violations {
        if let Some(k) = known.findings.iter().find(|(p, key, _)| p == prop && (*key == v.key)) {
            known_hit.push((v, k.2.clone()));
        } else {
            unknown.push(v);
        }
    }
    let surplus_unknown: Vec<String> = out.acc.other_keys.iter().filter(|k| !known.findings.iter().any(|(p, key, _)| p == prop && key == *k)).cloned().collect();
    let surplus_known = out.acc.other_keys.len() - surplus_unknown.len();
    for k in out.acc.other_keys.iter().filter(|k| !surplus_unknown.contains(k)) {
        out!("KNOWN-FINDING: property={} (further instance) [{}]", prop, k);
    }
    let _ = surplus_known;
    for (v, what) in &known_hit {
        out!("KNOWN-FINDING: property={} {} [{}]", prop, what, v.key);
    }
    let mut code = 0;
    for (n, v) in unknown.iter().enumerate() {
        let path = format!("{}/replays/{}-{}.json", verif_dir(), prop, n + 1);
        let j = json::obj(vec![("property", json::s(prop)), ("key", json::s(v.key.clone())), ("what", json::s(v.what.clone())), ("tier", json::s(tier)), ("replay", v.replay.clone())]);
        if let Err(e) = std::fs::write(&path, j.to_string()) {
            out!("MACHINERY-ERROR: cannot write {}: {}", path, e);
            return 2;
        }
        if n < 8 {
            out!("VIOLATION property={} replay={}", prop, path);
            out!("  what: {}", v.what);
        }
        code = 1;
    }
    if !surplus_unknown.is_empty() {
        let path = format!("{}/replays/{}-more.json", verif_dir(), prop);
        let j = json::obj(vec![("property", json::s(prop)), ("further_violation_keys", json::strs(&surplus_unknown))]);
        let _ = std::fs::write(&path, j.to_string());
        if code == 0 {
            out!("VIOLATION property={} replay={}", prop, path);
        }
        out!("  ... and {} further distinct violation keys listed in {}", surplus_unknown.len(), path);
        code = 1;
    }
    let unknown_count = unknown.len() as u64 + surplus_unknown.len() as u64;

    // evidence
    let mut cov: Vec<(String, J)> = vec![];
    cov.push(("states".into(), json::i(out.acc.states.max(0))));
    cov.push(("transitions".into(), json::i(out.acc.transitions)));
    cov.push(("traces_validated_against_impl".into(), json::i(out.traces_validated)));
    cov.push(("evaluations".into(), json::i(out.acc.evaluations.max(out.acc.states))));
    cov.push(("distinct_nontrivial".into(), json::i(out.acc.outcomes.len().max(out.acc.counts.len()))));
    cov.push(("rule".into(), json::s(out.rule.clone())));
    cov.push(("exhaustive".into(), J::Bool(out.exhaustive)));
    cov.push((
        "spaces".into(),
        J::Arr(out.spaces.iter().map(|s| json::obj(vec![("name", json::s(s.name.clone())), ("states", json::i(s.states)), ("exhaustive", J::Bool(s.exhaustive)), ("note", json::s(s.note.clone()))])).collect()),
    ));
    cov.push(("counts".into(), json::counts_json(&out.acc.counts.iter().map(|(k, v)| (k.clone(), *v)).collect())));
    cov.push(("maxima".into(), json::counts_json(&out.acc.maxima.iter().map(|(k, v)| (k.clone(), *v)).collect())));
    cov.push(("distinct_outcomes".into(), json::i(out.acc.outcomes.len())));
    cov.push(("outcome_classes".into(), json::strs(&out.acc.outcomes.iter().take(24).cloned().collect::<Vec<_>>())));
    cov.push(("caps_hit".into(), json::strs(&out.caps)));
    cov.push(("samples".into(), J::Arr(out.acc.samples.clone())));
    cov.push(("model_validation".into(), json::s(model_note)));
    cov.push(("known_findings_reported".into(), json::i(known_hit.len())));
    for (k, v) in out.extra {
        cov.push((k, v));
    }
    let ev = J::Obj(vec![
        ("property_id".into(), json::s(prop)),
        ("tier".into(), json::s(tier)),
        ("seed".into(), json::i(seed)),
        ("level".into(), json::s("model_checking")),
        ("coverage".into(), J::Obj(cov)),
        ("assumptions".into(), json::strs(&out.assumptions)),
        ("wall_s".into(), J::Num(wall)),
        ("violations".into(), json::i(unknown_count)),
    ]);
    let epath = format!("{}/evidence/{}.json", verif_dir(), prop);
    if let Err(e) = std::fs::write(&epath, ev.to_string()) {
        out!("MACHINERY-ERROR: cannot write {}: {}", epath, e);
        return 2;
    }
    out!(
        "{} {} tier={} states={} transitions={} evaluations={} violations={} (distinct kept {}, known {}) outcomes={} wall={:.1}s",
        if code == 0 { "PASS" } else { "FAIL" },
        prop,
        tier,
        out.acc.states,
        out.acc.transitions,
        out.acc.evaluations,
        out.acc.n_violations,
        out.acc.violations.len(),
        known_hit.len(),
        out.acc.outcomes.len(),
        wall
    );
    for s in &out.spaces {
        out!("   space {:<60} states {:>10}  {}", s.name, s.states, s.note);
    }
    for (k, v) in &out.acc.counts {
        out!("   count {:<50} {}", k, v);
    }
    for n in out.acc.notes.iter().take(12) {
        out!("   note  {}", n);
    }
    for (k, v) in &out.acc.maxima {
        out!("   max   {:<50} {}", k, v);
    }
    code
}
