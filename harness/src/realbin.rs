//! Conformance of the harness-compiled engine with the REAL binary: the repository built by its own
//! `cargo build --release` (hooks off, its own main.rs / constants.rs, real stdin/stdout, real threads, real
//! clock). `./check` builds it into $VERIF_DIR/target-repo and passes its path in VERIF_REAL_BIN.
//!
//! Two uses: (1) C19 - every fresh fixed-depth transcript produced in-process (checked profile, captured output,
//! hooks on) must be reproduced byte for byte by the real binary: this binds the "model" the explorers drive to the
//! artefact users run; (2) C14 - a handful of real-time sessions in which the only timing-dependent verdict is "no
//! answer within a very generous limit" (a blocked `readyok`, a `stop` that is never processed, a process that does not
//! exit): defects in code the in-process capture cannot see (direct writes to stdout, locks on stdout, main.rs).
#![allow(dead_code)]

use std::io::{BufRead, BufReader, Write};
use std::process::{Child, ChildStdin, Command, Stdio};
use std::sync::mpsc::{channel, Receiver, RecvTimeoutError};
use std::time::{Duration, Instant};

pub fn real_bin() -> Option<String> {
    std::env::var("VERIF_REAL_BIN").ok().filter(|p| std::path::Path::new(p).exists())
}

pub struct Session {
    child: Child,
    stdin: Option<ChildStdin>,
    rx: Receiver<String>,
    err_rx: Receiver<String>,
    pub seen: Vec<String>,
}

impl Session {
    pub fn start(bin: &str) -> Result<Session, String> {
        Session::start_env(bin, &[])
    }
    pub fn start_env(bin: &str, envs: &[(&str, String)]) -> Result<Session, String> {
        let mut cmd = Command::new(bin);
        for (k, v) in envs {
            cmd.env(k, v);
        }
        let mut child = cmd.stdin(Stdio::piped()).stdout(Stdio::piped()).stderr(Stdio::piped()).spawn().map_err(|e| format!("cannot start {}: {}", bin, e))?;
        let out = child.stdout.take().unwrap();
        let err = child.stderr.take().unwrap();
        let (tx, rx) = channel();
        std::thread::spawn(move || {
            for l in BufReader::new(out).lines().map_while(Result::ok) {
                if tx.send(l).is_err() {
                    break;
                }
            }
        });
        let (etx, err_rx) = channel();
        std::thread::spawn(move || {
            for l in BufReader::new(err).lines().map_while(Result::ok) {
                if etx.send(l).is_err() {
                    break;
                }
            }
        });
        let stdin = child.stdin.take();
        Ok(Session { child, stdin, rx, err_rx, seen: vec![] })
    }
    pub fn send(&mut self, line: &str) -> Result<(), String> {
        let Some(s) = self.stdin.as_mut() else { return Err("stdin closed".into()) };
        writeln!(s, "{}", line).and_then(|_| s.flush()).map_err(|e| format!("write to the engine failed ({}): the process is gone", e))
    }
    pub fn close_stdin(&mut self) {
        self.stdin = None;
    }
    /// wait until a line satisfying `pred` arrives; returns the lines read up to and including it
    pub fn expect(&mut self, pred: impl Fn(&str) -> bool, limit: Duration) -> Result<Vec<String>, String> {
        let t0 = Instant::now();
        let mut got = vec![];
        loop {
            let left = limit.checked_sub(t0.elapsed()).unwrap_or(Duration::ZERO);
            match self.rx.recv_timeout(left) {
                Ok(l) => {
                    self.seen.push(l.clone());
                    let hit = pred(&l);
                    got.push(l);
                    if hit {
                        return Ok(got);
                    }
                }
                Err(RecvTimeoutError::Timeout) => return Err(format!("nothing matching arrived within {} s (read meanwhile: {} lines, last {:?})", limit.as_secs(), got.len(), got.last())),
                Err(RecvTimeoutError::Disconnected) => return Err(format!("the engine closed its output (read meanwhile: {} lines, last {:?}; stderr: {:?})", got.len(), got.last(), self.stderr_text())),
            }
        }
    }
    /// lines that arrive within `d` (used only to assert that something does NOT appear, never as a verdict by itself)
    pub fn drain_for(&mut self, d: Duration) -> Vec<String> {
        let t0 = Instant::now();
        let mut got = vec![];
        while let Some(left) = d.checked_sub(t0.elapsed()) {
            match self.rx.recv_timeout(left) {
                Ok(l) => {
                    self.seen.push(l.clone());
                    got.push(l)
                }
                Err(_) => break,
            }
        }
        got
    }
    pub fn stderr_text(&mut self) -> String {
        let mut v = vec![];
        while let Ok(l) = self.err_rx.try_recv() {
            v.push(l);
        }
        v.join(" | ")
    }
    /// wait for the process to exit; Ok(exit code)
    pub fn wait_exit(&mut self, limit: Duration) -> Result<i32, String> {
        let t0 = Instant::now();
        loop {
            match self.child.try_wait() {
                Ok(Some(st)) => return Ok(st.code().unwrap_or(-1)),
                Ok(None) => {
                    if t0.elapsed() > limit {
                        return Err(format!("the process did not exit within {} s", limit.as_secs()));
                    }
                    std::thread::sleep(Duration::from_millis(5));
                }
                Err(e) => return Err(e.to_string()),
            }
        }
    }
}

impl Drop for Session {
    fn drop(&mut self) {
        let _ = self.child.kill();
        let _ = self.child.wait();
    }
}

/// run a whole script (every `go` followed by `wait`, so the output is deterministic), return all stdout lines
pub fn transcript(bin: &str, lines: &[String], limit: Duration) -> Result<Vec<String>, String> {
    transcript_env(bin, lines, limit, &[])
}

pub fn transcript_env(bin: &str, lines: &[String], limit: Duration, envs: &[(&str, String)]) -> Result<Vec<String>, String> {
    let mut s = Session::start_env(bin, envs)?;
    for l in lines {
        s.send(l)?;
    }
    s.send("quit")?;
    let code = s.wait_exit(limit)?;
    let rest = s.drain_for(Duration::from_secs(20)); // returns as soon as the pipe is closed
    let _ = rest;
    if code != 0 {
        return Err(format!("exit status {} (stderr: {})", code, s.stderr_text()));
    }
    Ok(s.seen.clone())
}
