//! Driving the real search under the hooks: one search = one guarded call of
//! `get_best_move_until_stop` with a sequential hook context (poll counter,
//! stop point, depth monitor, table-less switch, watchdog).
#![allow(dead_code)]

use crate::bind::*;
use crate::chess::move_struct::Move;
use crate::chess::Game;
use crate::refchess::*;
use crate::search::{get_best_move_until_stop, TranspositionTable};
use crate::verif_hooks::{in_seq, SeqCtx};
use std::sync::atomic::AtomicBool;

pub fn new_table() -> TranspositionTable {
    TranspositionTable::default()
}

/// A root given as text plus moves played into the record with push_history
#[derive(Clone, Debug, PartialEq, Eq, Hash, PartialOrd, Ord)]
pub struct RootSpec {
    pub fen: String,
    pub history: Vec<String>,
}

impl RootSpec {
    pub fn fen(f: &str) -> RootSpec {
        RootSpec { fen: f.to_string(), history: vec![] }
    }
    pub fn with(f: &str, h: &str) -> RootSpec {
        RootSpec { fen: f.to_string(), history: h.split_whitespace().map(|s| s.to_string()).collect() }
    }
    pub fn text(&self) -> String {
        if self.history.is_empty() {
            self.fen.clone()
        } else {
            format!("{} moves {}", self.fen, self.history.join(" "))
        }
    }
    /// (real game, model position)
    pub fn build(&self) -> Result<(Game, Pos), String> {
        let mut p = parse_fen_strict(&self.fen)?.pos.normalised();
        let mut g = match guarded(|| Game::new(&self.fen)) {
            Ok(Ok(g)) => g,
            Ok(Err(e)) => return Err(format!("Game::new refused {}: {}", self.fen, e)),
            Err(pn) => return Err(format!("Game::new panicked on {}: {}", self.fen, pn)),
        };
        for t in &self.history {
            let m = p.legal().into_iter().find(|m| &m.uci() == t).ok_or(format!("history move {} is not legal in the model at {}", t, p.fen4(false)))?;
            let em = find_move(&mut g, t).ok_or(format!("engine does not offer history move {} at {}", t, p.fen4(false)))?;
            guarded(|| g.push_history(em)).map_err(|e| format!("push_history({}) panicked: {}", t, e))?;
            p = p.apply(&m).normalised();
        }
        Ok((g, p))
    }
}

#[derive(Clone, Debug)]
pub struct SearchRun {
    /// Ok(best move text or None) or Err(panic text)
    pub result: Result<Option<String>, String>,
    pub transcript: Vec<String>,
    pub polls: u64,
    pub max_iter_depth: u32,
    pub max_real_depth: u32,
    pub deeper_seen: bool,
    pub watchdog_fired: bool,
    pub polls_after_stop: u64,
    pub stopped: bool,
    /// the caller's game differs after the call
    pub game_changed: Option<String>,
    /// poll counts at which the driver printed its `info depth` lines (iteration boundaries)
    pub iter_marks: Vec<u64>,
    /// polls made one ply below the root (and the first three two plies below after each)
    pub shallow_polls: Vec<u64>,
}

#[derive(Clone, Debug)]
pub struct SearchCfg {
    pub max_depth: Option<u8>,
    pub stop_at: u64,
    pub depth_monitor: u32,
    pub watchdog: u64,
    pub tableless: bool,
}

impl SearchCfg {
    pub fn depth(d: u8) -> SearchCfg {
        SearchCfg { max_depth: Some(d), stop_at: u64::MAX, depth_monitor: d as u32, watchdog: 50_000_000, tableless: false }
    }
    pub fn unlimited(watchdog: u64) -> SearchCfg {
        SearchCfg { max_depth: None, stop_at: u64::MAX, depth_monitor: u32::MAX, watchdog, tableless: false }
    }
}

pub fn run_search(game: &Game, table: &mut TranspositionTable, cfg: &SearchCfg) -> SearchRun {
    run_search_flag(game, table, cfg, true)
}

/// `initial_flag = false`: the stop request is already in when the search function is entered (`go` overtaken by
/// `stop`, or a time budget of zero: the timer fired before the search thread got going)
pub fn run_search_flag(game: &Game, table: &mut TranspositionTable, cfg: &SearchCfg, initial_flag: bool) -> SearchRun {
    let mut ctx = SeqCtx::new();
    ctx.stop_at = cfg.stop_at;
    ctx.depth_limit = cfg.depth_monitor;
    ctx.watchdog = cfg.watchdog;
    ctx.tableless = cfg.tableless;
    crate::bind::note_case_text(&format!("search of {} (limit {:?}, stop at poll {}, table-less {})", game.fen(), cfg.max_depth, cfg.stop_at, cfg.tableless));
    let before = game.verif_dump();
    let flag = AtomicBool::new(initial_flag);
    let (r, ctx) = in_seq(ctx, || guarded(|| get_best_move_until_stop(game, table, &flag, cfg.max_depth)));
    let after = game.verif_dump();
    SearchRun {
        result: r.map(|m| m.map(|m| m.uci_notation())),
        transcript: ctx.transcript,
        polls: ctx.polls,
        max_iter_depth: ctx.max_iter_depth,
        max_real_depth: ctx.max_real_depth,
        deeper_seen: ctx.deeper_seen,
        watchdog_fired: ctx.watchdog_fired,
        polls_after_stop: ctx.polls_after_stop,
        stopped: ctx.stopped,
        game_changed: if before != after { Some(diff_dump(&before, &after)) } else { None },
        iter_marks: ctx.iter_marks,
        shallow_polls: ctx.shallow_polls,
    }
}

/// One `info ...` line of the engine, read token by token (UCI keyword grammar), so that the checks neither
/// fall silent nor raise an alarm when the engine prints its report in another layout (one field per line as today,
/// or the usual single line `info depth 3 score cp 25 nodes 100 pv e2e4 e7e5`).
#[derive(Clone, Debug, Default, PartialEq)]
pub struct Info {
    pub depth: Option<u32>,
    pub score: Option<i32>,
    pub nodes: Option<u64>,
    pub time: Option<u128>,
    pub pv: Option<Vec<String>>,
}

const INFO_KEYWORDS: [&str; 17] = ["depth", "seldepth", "time", "nodes", "pv", "multipv", "score", "currmove", "currmovenumber", "hashfull", "nps", "tbhits", "sbhits", "cpuload", "string", "refutation", "currline"];

pub fn parse_info(line: &str) -> Option<Info> {
    let mut it = line.split_whitespace().peekable();
    if it.next()? != "info" {
        return None;
    }
    let mut info = Info::default();
    while let Some(t) = it.next() {
        match t {
            "depth" => info.depth = it.next().and_then(|x| x.parse().ok()),
            "nodes" => info.nodes = it.next().and_then(|x| x.parse().ok()),
            "time" => info.time = it.next().and_then(|x| x.parse().ok()),
            "score" => {
                if it.peek() == Some(&"cp") {
                    it.next();
                    info.score = it.next().and_then(|x| x.parse().ok());
                }
            }
            "pv" => {
                let mut v = Vec::new();
                while let Some(m) = it.peek() {
                    if INFO_KEYWORDS.contains(m) {
                        break;
                    }
                    v.push(it.next().unwrap().to_string());
                }
                info.pv = Some(v);
            }
            "string" => break,
            _ => {}
        }
    }
    Some(info)
}

/// principal variations reported in a transcript, as move-text lists
pub fn pv_lines(transcript: &[String]) -> Vec<Vec<String>> {
    transcript.iter().filter_map(|l| parse_info(l)).filter_map(|i| i.pv).collect()
}

pub fn info_depths(transcript: &[String]) -> Vec<u32> {
    transcript.iter().filter_map(|l| parse_info(l)).filter_map(|i| i.depth).collect()
}

pub fn info_scores(transcript: &[String]) -> Vec<i32> {
    transcript.iter().filter_map(|l| parse_info(l)).filter_map(|i| i.score).collect()
}

pub fn info_nodes(transcript: &[String]) -> Vec<u64> {
    transcript.iter().filter_map(|l| parse_info(l)).filter_map(|i| i.nodes).collect()
}

/// the line reports a completed iteration (carries a `depth` field)
pub fn is_depth_line(l: &str) -> bool {
    l.starts_with("info") && parse_info(l).map_or(false, |i| i.depth.is_some())
}

/// replay a line on the model; Err(index, move) at the first illegal move
pub fn line_playable(p: &Pos, line: &[String]) -> Result<(), (usize, String)> {
    let mut cur = *p;
    for (i, t) in line.iter().enumerate() {
        match cur.legal().into_iter().find(|m| &m.uci() == t) {
            Some(m) => cur = cur.apply(&m).normalised(),
            None => return Err((i, t.clone())),
        }
    }
    Ok(())
}
