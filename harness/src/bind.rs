//! Binding between the reference model and the real `Game`: loading, move
//! lookup by UCI text, snapshots of observables, the representation invariant,
//! and panic capture.
#![allow(dead_code)]

use crate::chess::move_struct::Move;
use crate::chess::verif::VerifDump;
use crate::chess::{Game, Player};
use crate::refchess::*;
use arrayvec::ArrayVec;
use std::cell::RefCell;

// ---------------------------------------------------------------- panic capture

thread_local! {
    static LAST_PANIC: RefCell<Option<String>> = const { RefCell::new(None) };
}

pub fn install_panic_hook() {
    std::panic::set_hook(Box::new(|info| {
        let loc = info.location().map(|l| format!("{}:{}:{}", l.file(), l.line(), l.column())).unwrap_or_default();
        let msg = if let Some(s) = info.payload().downcast_ref::<&str>() {
            s.to_string()
        } else if let Some(s) = info.payload().downcast_ref::<String>() {
            s.clone()
        } else {
            "<non-string panic>".to_string()
        };
        let text = format!("{} @ {}", msg, loc);
        if msg.starts_with("unsafe precondition(s) violated") || msg.contains("panic in a function that cannot unwind") {
            // A panic that cannot unwind (std's unsafe-precondition checks: `get_unchecked` out of range,
            // `unwrap_unchecked` on None, ...) aborts the process as soon as this hook returns. In the release build the
            // same execution is undefined behaviour. That is a verdict about the subject, not a machinery failure: say
            // so, leave a replay artefact with the case this thread was working on, and end the check.
            abort_verdict(&text);
        }
        LAST_PANIC.with(|p| *p.borrow_mut() = Some(text.clone()));
        // panics on threads the harness does not own (engine search/timer threads) are collected here
        if let Ok(mut g) = FOREIGN_PANICS.lock() {
            if g.len() < 64 {
                g.push((format!("{:?}", std::thread::current().id()), text));
            }
        }
    }));
}

/// the property being checked by this process and whether it is a worker (set once by main)
pub static RUN_INFO: std::sync::OnceLock<(String, bool)> = std::sync::OnceLock::new();

thread_local! {
    /// the case the current thread is working on, for the artefact of a verdict that cannot be delivered by unwinding
    static CASE_POS: std::cell::Cell<Option<crate::refchess::Pos>> = const { std::cell::Cell::new(None) };
    static CASE_TEXT: RefCell<String> = const { RefCell::new(String::new()) };
}

pub fn note_case_pos(p: &crate::refchess::Pos) {
    CASE_POS.with(|c| c.set(Some(*p)));
}

pub fn note_case_text(t: &str) {
    CASE_TEXT.with(|c| {
        let mut c = c.borrow_mut();
        c.clear();
        c.push_str(t);
    });
}

fn abort_verdict(text: &str) -> ! {
    use std::io::Write;
    let (prop, worker) = RUN_INFO.get().cloned().unwrap_or(("C15".to_string(), false));
    let pos = CASE_POS.with(|c| c.get()).map(|p| p.fen6(false)).unwrap_or_default();
    let case = CASE_TEXT.with(|c| c.try_borrow().map(|c| c.clone()).unwrap_or_default());
    let what = format!("the engine violated the precondition of an unchecked operation (undefined behaviour in the release build): {}; state being visited: [{}]; case: [{}]", text, pos, case);
    let dir = format!("{}/replays", crate::report::verif_dir());
    let _ = std::fs::create_dir_all(&dir);
    let path = format!("{}/{}-abort-{}.json", dir, prop, std::process::id());
    let j = crate::json::obj(vec![("property", crate::json::s(prop.clone())), ("key", crate::json::s(format!("abort|{}", text))), ("what", crate::json::s(what.clone())), ("replay", crate::json::obj(vec![("kind", crate::json::s("abort")), ("fen", crate::json::s(pos)), ("case", crate::json::s(case))]))]);
    let _ = std::fs::write(&path, j.to_string());
    let so = std::io::stdout();
    let mut so = so.lock();
    if worker {
        let _ = writeln!(so, "ABORT-VERDICT {}\t{}", path, what);
    } else {
        let _ = writeln!(so, "VIOLATION property={} replay={}", prop, path);
        let _ = writeln!(so, "  what: {}", what);
        let _ = writeln!(so, "FAIL {} : the check ended at this verdict (the process cannot continue after a non-unwinding panic)", prop);
    }
    let _ = so.flush();
    std::process::exit(1)
}

pub static FOREIGN_PANICS: std::sync::Mutex<Vec<(String, String)>> = std::sync::Mutex::new(Vec::new());

pub fn panic_text(e: &Box<dyn std::any::Any + Send>) -> String {
    if let Some(t) = LAST_PANIC.with(|p| p.borrow_mut().take()) {
        return t;
    }
    if let Some(s) = e.downcast_ref::<&str>() {
        s.to_string()
    } else if let Some(s) = e.downcast_ref::<String>() {
        s.clone()
    } else {
        "<panic>".into()
    }
}

#[derive(Debug, Clone, PartialEq, Eq)]
pub enum PanicClass {
    /// message/location inside the repository's sources, or a std unsafe-precondition /
    /// arrayvec capacity / bounds / overflow message: a verdict about the subject
    Subject,
    /// anything else: harness bug, allocation failure ... (machinery error)
    Machinery,
}

pub fn classify_panic(text: &str) -> PanicClass {
    let subject_loc = text.contains("/repo/src/");
    let unsafe_pre = text.contains("unsafe precondition") || text.contains("ArrayVec") || text.contains("arrayvec") || text.contains("capacity");
    if subject_loc || unsafe_pre {
        PanicClass::Subject
    } else {
        PanicClass::Machinery
    }
}

/// Run a subject call, catching panics. Err(text) carries message @ location.
pub fn guarded<R>(f: impl FnOnce() -> R) -> Result<R, String> {
    LAST_PANIC.with(|p| *p.borrow_mut() = None);
    match std::panic::catch_unwind(std::panic::AssertUnwindSafe(f)) {
        Ok(r) => Ok(r),
        Err(e) => Err(panic_text(&e)),
    }
}

// ---------------------------------------------------------------- loading & moves

pub fn load(pos: &Pos) -> Result<Game, String> {
    let fen = pos.fen6(false);
    match guarded(|| Game::new(&fen)) {
        Ok(Ok(g)) => Ok(g),
        Ok(Err(e)) => Err(format!("Game::new refused {:?}: {}", fen, e)),
        Err(p) => Err(format!("Game::new panicked on {:?}: {}", fen, p)),
    }
}

pub fn moves(game: &mut Game, verify: bool) -> ArrayVec<Move, 256> {
    let mut v = ArrayVec::new();
    game.get_moves(&mut v, verify);
    v
}

pub fn move_texts(game: &mut Game, verify: bool) -> Vec<String> {
    moves(game, verify).iter().map(|m| m.uci_notation()).collect()
}

/// find the engine's checked-legal move with the given UCI text
pub fn find_move(game: &mut Game, uci: &str) -> Option<Move> {
    moves(game, true).iter().copied().find(|m| m.uci_notation() == uci)
}

pub fn find_move_unchecked(game: &mut Game, uci: &str) -> Option<Move> {
    moves(game, false).iter().copied().find(|m| m.uci_notation() == uci)
}

/// Replay a model path on a game with plain `push` (history = false) or `push_history`.
pub fn replay(game: &mut Game, path: &[Mv], history: bool) -> Result<(), String> {
    for m in path {
        let t = m.uci();
        let Some(em) = find_move(game, &t) else {
            return Err(format!("engine offers no legal move with text {} at {}", t, game.fen()));
        };
        if history {
            game.push_history(em);
        } else {
            game.push(em);
        }
    }
    Ok(())
}

// ---------------------------------------------------------------- dumps

/// (board, white_to_move, rights nibble, ep nibble) from a dump, in model conventions
pub fn dump_core(d: &VerifDump) -> ([u8; 64], bool, u8, u8) {
    let st = *d.state.last().unwrap_or(&8);
    (d.board, d.side == 1, st >> 4, st & 15)
}

pub fn core_matches(d: &VerifDump, p: &Pos) -> Result<(), String> {
    let (b, w, r, e) = dump_core(d);
    if b != p.b {
        return Err(format!("placement differs: engine {} vs model {}", board_field(&b), p.placement_field()));
    }
    if w != p.white {
        return Err(format!("side to move differs: engine {} vs model {}", if w { 'w' } else { 'b' }, if p.white { 'w' } else { 'b' }));
    }
    if r != p.rights {
        return Err(format!("castling rights differ: engine {:04b} vs model {:04b} (bits qkQK)", r, p.rights));
    }
    let want = p.engine_ep_file();
    // any value >= 8 means "no en-passant opportunity" (that is how every reader of the field treats it)
    if e.min(8) != want {
        return Err(format!("en-passant file differs: engine {} vs model {} (8 = none)", e, want));
    }
    Ok(())
}

pub fn board_field(b: &[u8; 64]) -> String {
    let mut p = Pos::empty();
    p.b = *b;
    p.placement_field()
}

/// The representation invariant RI (DESIGN.md 3.3) evaluated on a dump.
pub fn check_ri(d: &VerifDump, keys: &Keys) -> Result<(), String> {
    let endgame_king = d.score_tables[5] == 6;
    if d.score_tables[..5] != [0, 1, 2, 3, 4] || !(d.score_tables[5] == 5 || d.score_tables[5] == 6) {
        return Err(format!("piece-score table pointers are {:?}", d.score_tables));
    }
    if endgame_king != d.phase_is_endgame {
        return Err(format!("king table in force (end={}) disagrees with phase flag (end={})", endgame_king, d.phase_is_endgame));
    }
    let mut h = 0u64;
    let mut sc = 0i32;
    let mut kings = [None, None];
    for s in 0..64usize {
        let c = d.board[s];
        let want_h = if c == 0 { keys.empty } else { keys.piece[s][(c - 1) as usize] };
        if d.past_hashes[s] != want_h {
            return Err(format!("cached hash of square {} is {:X}, expected {:X}", sq_name(s as u8), d.past_hashes[s], want_h));
        }
        let want_s = if c == 0 { 0 } else { psq(c, s as u8, endgame_king) };
        if d.past_scores[s] as i32 != want_s {
            return Err(format!("cached score of square {} ({}) is {}, expected {} with the {} king table", sq_name(s as u8), if c == 0 { '.' } else { piece_letter(c) }, d.past_scores[s], want_s, if endgame_king { "endgame" } else { "middlegame" }));
        }
        h ^= d.past_hashes[s];
        sc += d.past_scores[s] as i32;
        if c == WK {
            kings[0] = Some(s);
        }
        if c == BK {
            kings[1] = Some(s);
        }
    }
    if d.side == -1 {
        h ^= keys.side;
    }
    let st = *d.state.last().ok_or("empty state stack")?;
    h ^= keys.state[st as usize];
    if h != d.hash {
        return Err(format!("running hash {:X} != XOR of caches, side and state keys {:X}", d.hash, h));
    }
    if sc != d.score as i32 {
        return Err(format!("running score {} != sum of cached square scores {}", d.score, sc));
    }
    for (i, k) in kings.iter().enumerate() {
        if let Some(s) = k {
            let (r, f) = d.king_positions[i];
            if (r as usize) * 8 + f as usize != *s {
                return Err(format!("cached {} king square {}{} but king stands on {}", if i == 0 { "white" } else { "black" }, (b'a' + f as u8) as char, r + 1, sq_name(*s as u8)));
            }
        }
    }
    Ok(())
}

// ---------------------------------------------------------------- observables

#[derive(Clone, Debug, PartialEq, Eq)]
pub struct Obs {
    pub fen: String,
    pub hash: u64,
    pub score: i16,
    pub len: usize,
    pub wk: (i8, i8),
    pub bk: (i8, i8),
    pub checked: Vec<String>,
    pub unchecked: Vec<String>,
    pub display: String,
}

/// Public observables. NOTE: taking the move lists is itself a query on the game (C03 covers that).
pub fn observe(game: &mut Game) -> Obs {
    let fen = game.fen();
    let hash = game.hash();
    let score = game.score();
    let len = game.len();
    let wk = game.get_king_position(Player::White);
    let bk = game.get_king_position(Player::Black);
    let display = format!("{}", game);
    let checked = move_texts(game, true);
    let unchecked = move_texts(game, false);
    Obs { fen, hash, score, len, wk: (wk.row(), wk.col()), bk: (bk.row(), bk.col()), checked, unchecked, display }
}

/// observables that do not call the generator
pub fn observe_light(game: &Game) -> (String, u64, i16, usize, (i8, i8), (i8, i8)) {
    let wk = game.get_king_position(Player::White);
    let bk = game.get_king_position(Player::Black);
    (game.fen(), game.hash(), game.score(), game.len(), (wk.row(), wk.col()), (bk.row(), bk.col()))
}

pub fn diff_obs(a: &Obs, b: &Obs) -> String {
    let mut v = vec![];
    if a.fen != b.fen {
        v.push(format!("fen {:?} -> {:?}", a.fen, b.fen));
    }
    if a.hash != b.hash {
        v.push(format!("hash {:X} -> {:X}", a.hash, b.hash));
    }
    if a.score != b.score {
        v.push(format!("score {} -> {}", a.score, b.score));
    }
    if a.len != b.len {
        v.push(format!("len {} -> {}", a.len, b.len));
    }
    if a.wk != b.wk || a.bk != b.bk {
        v.push(format!("king squares {:?}{:?} -> {:?}{:?}", a.wk, a.bk, b.wk, b.bk));
    }
    if a.checked != b.checked {
        v.push(format!("checked list {:?} -> {:?}", a.checked, b.checked));
    }
    if a.unchecked != b.unchecked {
        v.push(format!("unchecked list {:?} -> {:?}", a.unchecked, b.unchecked));
    }
    if a.display != b.display {
        v.push("display text changed".to_string());
    }
    v.join("; ")
}

pub fn diff_dump(a: &VerifDump, b: &VerifDump) -> String {
    let mut v = vec![];
    if a.board != b.board {
        v.push(format!("board {} -> {}", board_field(&a.board), board_field(&b.board)));
    }
    if a.side != b.side {
        v.push(format!("side {} -> {}", a.side, b.side));
    }
    if a.state != b.state {
        v.push(format!("state stack (len {} last {:?}) -> (len {} last {:?})", a.state.len(), a.state.last(), b.state.len(), b.state.last()));
    }
    if a.hash != b.hash {
        v.push(format!("hash {:X} -> {:X}", a.hash, b.hash));
    }
    if a.score != b.score {
        v.push(format!("score {} -> {}", a.score, b.score));
    }
    if a.past_hashes != b.past_hashes {
        v.push("cached square hashes changed".into());
    }
    if a.past_scores != b.past_scores {
        let q: Vec<String> = (0..64).filter(|&s| a.past_scores[s] != b.past_scores[s]).map(|s| format!("{}:{}->{}", sq_name(s as u8), a.past_scores[s], b.past_scores[s])).collect();
        v.push(format!("cached square scores changed [{}]", q.join(",")));
    }
    if a.king_positions != b.king_positions {
        v.push(format!("king squares {:?} -> {:?}", a.king_positions, b.king_positions));
    }
    if a.phase_is_endgame != b.phase_is_endgame {
        v.push(format!("phase endgame {} -> {}", a.phase_is_endgame, b.phase_is_endgame));
    }
    if a.score_tables != b.score_tables {
        v.push(format!("score tables {:?} -> {:?}", a.score_tables, b.score_tables));
    }
    if a.move_stack_len != b.move_stack_len {
        v.push(format!("move record length {} -> {}", a.move_stack_len, b.move_stack_len));
    }
    v.join("; ")
}
