//! Explorers E1 (universe enumeration) and E2 (reachability BFS), plus the
//! accumulator every check reports into.
#![allow(dead_code)]

use crate::json::{self, J};
use crate::refchess::*;
use crate::universe::Universe;
use std::collections::{BTreeMap, HashMap};
use std::sync::atomic::{AtomicUsize, Ordering::Relaxed};
use std::sync::Mutex;

pub const NTHREADS: usize = 16;
const STACK: usize = 256 << 20;

#[derive(Clone, Debug)]
pub struct Violation {
    /// minimal-witness key, matched against known_findings.json
    pub key: String,
    pub what: String,
    /// everything needed to re-execute the case
    pub replay: J,
}

#[derive(Default)]
pub struct Acc {
    pub states: u64,
    pub transitions: u64,
    pub evaluations: u64,
    pub counts: BTreeMap<String, u64>,
    pub violations: Vec<Violation>,
    pub n_violations: u64,
    pub samples: Vec<J>,
    pub notes: Vec<String>,
    /// machinery errors (never verdicts)
    pub errors: Vec<String>,
    pub maxima: BTreeMap<String, u64>,
    /// distinct outcome classes (vacuity guard)
    pub outcomes: std::collections::BTreeSet<String>,
    /// keys of violations beyond the fully kept representatives (so that none is lost to the cap)
    pub other_keys: std::collections::BTreeSet<String>,
    /// (engine hash, model key) pairs collected for the global collision table of C05
    pub pairs: Vec<(u64, [u8; 34])>,
}

pub const KEEP_VIOLATIONS: usize = 40;
pub const KEEP_SAMPLES: usize = 6;

impl Acc {
    pub fn new() -> Acc {
        Acc::default()
    }
    pub fn count(&mut self, k: &str) {
        *self.counts.entry(k.to_string()).or_insert(0) += 1;
    }
    pub fn add(&mut self, k: &str, n: u64) {
        *self.counts.entry(k.to_string()).or_insert(0) += n;
    }
    pub fn max(&mut self, k: &str, v: u64) {
        let e = self.maxima.entry(k.to_string()).or_insert(0);
        if v > *e {
            *e = v;
        }
    }
    pub fn outcome(&mut self, k: impl Into<String>) {
        if self.outcomes.len() < 4096 {
            self.outcomes.insert(k.into());
        }
    }
    pub fn violation(&mut self, key: impl Into<String>, what: impl Into<String>, replay: J) {
        self.n_violations += 1;
        let key = key.into();
        // screening mode for mutation campaigns (tools/automutate.py): stop at the first violation. Never set by ./check.
        if std::env::var_os("VERIF_FAIL_FAST").is_some() {
            let what: String = what.into();
            out!("FAILFAST violation key=[{}] what: {}", key, what.chars().take(400).collect::<String>());
            std::process::exit(1);
        }
        // keep one representative per key, up to the cap
        if self.violations.iter().any(|v| v.key == key) {
            return;
        }
        if self.violations.len() < KEEP_VIOLATIONS {
            self.violations.push(Violation { key, what: what.into(), replay });
        } else if self.other_keys.len() < 200_000 {
            self.other_keys.insert(key);
        }
    }
    pub fn sample(&mut self, j: J) {
        if self.samples.len() < KEEP_SAMPLES {
            self.samples.push(j);
        }
    }
    pub fn sample_every(&mut self, n: u64, every: u64, j: impl FnOnce() -> J) {
        if n % every == 0 && self.samples.len() < KEEP_SAMPLES {
            self.samples.push(j());
        }
    }
    pub fn merge(&mut self, o: Acc) {
        self.states += o.states;
        self.transitions += o.transitions;
        self.evaluations += o.evaluations;
        for (k, v) in o.counts {
            *self.counts.entry(k).or_insert(0) += v;
        }
        for (k, v) in o.maxima {
            let e = self.maxima.entry(k).or_insert(0);
            if v > *e {
                *e = v;
            }
        }
        self.n_violations += o.n_violations;
        for v in o.violations {
            if self.violations.iter().any(|x| x.key == v.key) {
                continue;
            }
            if self.violations.len() < KEEP_VIOLATIONS {
                self.violations.push(v);
            } else if self.other_keys.len() < 200_000 {
                self.other_keys.insert(v.key);
            }
        }
        for k in o.other_keys {
            if self.other_keys.len() < 200_000 && !self.violations.iter().any(|x| x.key == k) {
                self.other_keys.insert(k);
            }
        }
        for s in o.samples {
            if self.samples.len() < KEEP_SAMPLES {
                self.samples.push(s);
            }
        }
        if self.pairs.is_empty() {
            self.pairs = o.pairs;
        } else {
            self.pairs.extend(o.pairs);
        }
        self.notes.extend(o.notes);
        self.errors.extend(o.errors);
        for k in o.outcomes {
            if self.outcomes.len() < 4096 {
                self.outcomes.insert(k);
            }
        }
    }
}

/// Run `work(unit, acc)` for unit in 0..n on NTHREADS threads; merge accumulators.
pub fn par_units(n: usize, work: &(dyn Fn(usize, &mut Acc) + Sync)) -> Acc {
    let next = AtomicUsize::new(0);
    let total = Mutex::new(Acc::new());
    let panics = Mutex::new(Vec::<String>::new());
    std::thread::scope(|sc| {
        for _ in 0..NTHREADS.min(n.max(1)) {
            std::thread::Builder::new()
                .stack_size(STACK)
                .spawn_scoped(sc, || {
                    let mut acc = Acc::new();
                    loop {
                        let u = next.fetch_add(1, Relaxed);
                        if u >= n {
                            break;
                        }
                        let r = std::panic::catch_unwind(std::panic::AssertUnwindSafe(|| work(u, &mut acc)));
                        if let Err(e) = r {
                            let msg = crate::bind::panic_text(&e);
                            if msg.contains("/repo/src/") {
                                // the panic was raised inside the repository's own sources, in a call the harness made with an
                                // in-domain input while checking this property: the engine died there - a verdict, not a
                                // machinery error (the guarded call sites give better diagnostics; this is the safety net)
                                let loc = msg.rsplit(" @ ").next().unwrap_or("").to_string();
                                acc.violation(format!("subject-panic|{}", loc), format!("the engine panicked in a call made while checking this property (work unit {}): {}", u, msg), json::obj(vec![("kind", json::s("subject-panic")), ("panic", json::s(msg.clone()))]));
                            } else {
                                panics.lock().unwrap().push(format!("harness worker panicked outside a guarded subject call (unit {}): {}", u, msg));
                            }
                        }
                    }
                    total.lock().unwrap().merge(acc);
                })
                .expect("spawn worker");
        }
    });
    let mut t = total.into_inner().unwrap();
    t.errors.extend(panics.into_inner().unwrap());
    t
}

/// Parallel map over a slice in chunks, items processed with per-thread accumulators
pub fn par_items<T: Sync>(items: &[T], work: &(dyn Fn(usize, &T, &mut Acc) + Sync)) -> Acc {
    let chunk = (items.len() / (NTHREADS * 8)).max(1);
    let nchunks = (items.len() + chunk - 1) / chunk;
    par_units(nchunks, &|c, acc| {
        let lo = c * chunk;
        let hi = (lo + chunk).min(items.len());
        for i in lo..hi {
            work(i, &items[i], acc);
        }
    })
}

// ---------------------------------------------------------------- spaces

#[derive(Clone, Debug)]
pub enum Space {
    /// enumerate a universe; `stride`: (k, offset) keeps every k-th member of each unit's enumeration
    Enum { u: Universe, stride: u64, offset: u64 },
    /// BFS from a root to `depth` plies (None = to fixpoint), successor filter by max piece count not needed
    Bfs { name: String, root: String, depth: Option<u32>, expand_cap: Option<u32> },
    /// one fixed long game from `root`: every prefix (0..=plies) is a state whose "reached" game carries the whole
    /// history (state stack up to `plies`+1 entries). The line is produced by a deterministic rule (see `long_line`).
    Line { name: String, root: String, plies: u32, rule: u32 },
    /// explicit histories from one root: each path (UCI texts, legal on the model) is replayed and the states after
    /// its last `visit_last` moves are visited with the whole history as their path
    Paths { name: String, root: String, paths: Vec<Vec<String>>, visit_last: usize },
}

impl Space {
    pub fn all(u: Universe) -> Space {
        Space::Enum { u, stride: 1, offset: 0 }
    }
    pub fn slice(u: Universe, stride: u64, offset: u64) -> Space {
        Space::Enum { u, stride, offset: offset % stride.max(1) }
    }
    pub fn bfs(name: &str, root: &str, depth: u32) -> Space {
        Space::Bfs { name: name.into(), root: root.into(), depth: Some(depth), expand_cap: None }
    }
    pub fn closure(name: &str, root: &str) -> Space {
        Space::Bfs { name: name.into(), root: root.into(), depth: None, expand_cap: None }
    }
    pub fn line(name: &str, root: &str, plies: u32, rule: u32) -> Space {
        Space::Line { name: name.into(), root: root.into(), plies, rule }
    }
    pub fn name(&self) -> String {
        match self {
            Space::Line { name, plies, .. } => format!("LINE[{}] {} plies", name, plies),
            Space::Paths { name, paths, .. } => format!("PATHS[{}] {} histories", name, paths.len()),
            Space::Enum { u, stride, offset } => {
                if *stride > 1 {
                    format!("{} (every {}th member from offset {})", u.name(), stride, offset)
                } else {
                    u.name()
                }
            }
            Space::Bfs { name, depth, .. } => match depth {
                Some(d) => format!("BFS[{}] depth {}", name, d),
                None => format!("BFS[{}] to fixpoint", name),
            },
        }
    }
}

pub struct StateCtx<'a> {
    pub pos: &'a Pos,
    /// for BFS states: the root and the model move path from it (empty for enumerated states)
    pub root: Option<&'a Pos>,
    pub path: &'a [Mv],
    pub space: &'a str,
    /// index of the state within its unit / BFS order (for fixed-stride sub-slices inside a visitor)
    pub index: u64,
}

impl<'a> StateCtx<'a> {
    pub fn describe(&self) -> J {
        let mut v = vec![("fen", json::s(self.pos.fen6(false))), ("space", json::s(self.space))];
        if let Some(r) = self.root {
            v.push(("root", json::s(r.fen6(false))));
            v.push(("path", json::s(self.path.iter().map(|m| m.uci()).collect::<Vec<_>>().join(" "))));
        }
        json::obj(v)
    }
}

pub struct SpaceReport {
    pub name: String,
    pub states: u64,
    pub exhaustive: bool,
    pub note: String,
}

pub type Visitor<'a> = &'a (dyn Fn(&StateCtx, &mut Acc) + Sync);

/// Visit every state of every space. Returns the merged accumulator and per-space reports.
pub fn run_spaces(spaces: &[Space], visit: Visitor) -> (Acc, Vec<SpaceReport>) {
    let mut total = Acc::new();
    let mut reports = vec![];
    for sp in spaces {
        let name = sp.name();
        let before = total.states;
        let t0 = std::time::Instant::now();
        let mut note = String::new();
        match sp {
            Space::Enum { u, stride, offset } => {
                let acc = par_units(u.units(), &|unit, acc| {
                    let mut idx = 0u64;
                    u.for_unit(unit, &mut |p| {
                        let take = *stride <= 1 || idx % *stride == *offset;
                        if take {
                            let p = p.normalised();
                            let ctx = StateCtx { pos: &p, root: None, path: &[], space: &name, index: idx };
                            acc.states += 1;
                            crate::bind::note_case_pos(ctx.pos);
                            visit(&ctx, acc);
                        }
                        idx += 1;
                    });
                });
                total.merge(acc);
            }
            Space::Bfs { root, depth, expand_cap, .. } => {
                let rootp = match parse_fen_strict(root) {
                    Ok(p) => p.pos.normalised(),
                    Err(e) => {
                        total.errors.push(format!("bad BFS root {}: {}", root, e));
                        continue;
                    }
                };
                if !rootp.sane() {
                    total.errors.push(format!("BFS root {} is not a sane position (harness configuration error)", root));
                    continue;
                }
                let (acc, layers, complete) = bfs(&rootp, *depth, *expand_cap, &name, visit);
                note = format!("layers {:?}{}", layers, if depth.is_none() { if complete { " (fixpoint reached)" } else { " (NOT complete)" } } else { "" });
                total.merge(acc);
            }
            Space::Paths { root, paths, visit_last, .. } => {
                let rootp = match parse_fen_strict(root) {
                    Ok(p) => p.pos.normalised(),
                    Err(e) => {
                        total.errors.push(format!("bad paths root {}: {}", root, e));
                        continue;
                    }
                };
                let bad: Mutex<Vec<String>> = Mutex::new(vec![]);
                let acc = par_items(paths, &|pi, path, acc| {
                    let mut cur = rootp;
                    let mut line: Vec<Mv> = Vec::with_capacity(path.len());
                    let mut positions: Vec<Pos> = Vec::with_capacity(path.len() + 1);
                    positions.push(cur);
                    for t in path {
                        match cur.legal().into_iter().find(|m| &m.uci() == t) {
                            Some(m) => {
                                cur = cur.apply(&m).normalised();
                                line.push(m);
                                positions.push(cur);
                            }
                            None => {
                                bad.lock().unwrap().push(format!("history {} of {}: {} is not legal after {} plies", pi, name, t, line.len()));
                                return;
                            }
                        }
                    }
                    let first = (line.len() + 1).saturating_sub(*visit_last).max(1);
                    for i in first..=line.len() {
                        let ctx = StateCtx { pos: &positions[i], root: Some(&rootp), path: &line[..i], space: &name, index: (pi * 8 + (i - first)) as u64 };
                        acc.states += 1;
                        crate::bind::note_case_pos(ctx.pos);
                        visit(&ctx, acc);
                    }
                });
                total.errors.extend(bad.into_inner().unwrap());
                note = format!("{} histories, lengths {}..={}", paths.len(), paths.iter().map(|p| p.len()).min().unwrap_or(0), paths.iter().map(|p| p.len()).max().unwrap_or(0));
                total.merge(acc);
            }
            Space::Line { root, plies, rule, .. } => {
                let rootp = match parse_fen_strict(root) {
                    Ok(p) => p.pos.normalised(),
                    Err(e) => {
                        total.errors.push(format!("bad line root {}: {}", root, e));
                        continue;
                    }
                };
                let (line, positions) = long_line(&rootp, *plies, *rule);
                let idx: Vec<usize> = (0..positions.len()).collect();
                let acc = par_items(&idx, &|_, &i, acc| {
                    let ctx = StateCtx { pos: &positions[i], root: Some(&rootp), path: &line[..i], space: &name, index: i as u64 };
                    acc.states += 1;
                    crate::bind::note_case_pos(ctx.pos);
                    visit(&ctx, acc);
                });
                note = format!("{} plies played (captures {}, castlings {}, promotions {}, en-passant captures {}), last position {}", line.len(), line.iter().filter(|m| m.captured != 0).count(), line.iter().filter(|m| matches!(m.kind, MvKind::CastleShort | MvKind::CastleLong)).count(), line.iter().filter(|m| m.kind == MvKind::Promotion).count(), line.iter().filter(|m| m.kind == MvKind::EnPassant).count(), positions.last().map(|p| p.fen4(false)).unwrap_or_default());
                total.merge(acc);
            }
        }
        let n = total.states - before;
        reports.push(SpaceReport { name: name.clone(), states: n, exhaustive: true, note: format!("{} [{:.1}s]", note, t0.elapsed().as_secs_f64()) });
    }
    (total, reports)
}

/// A fixed long game: at ply i the mover plays the legal move (sorted by text) selected by a linear-congruential
/// sequence seeded with `rule`; moves that end the game are skipped while another exists. Rule bit 0 set = "shuffle"
/// flavour: captures and pawn moves are avoided when a quiet piece move exists (material and rights history stay rich
/// for hundreds of plies); rule bit 0 clear = any legal move (material thins out, endgame phase is entered).
/// Deterministic: the same (root, plies, rule) always gives the same line - it is a fixed history, not a sample.
pub fn long_line(root: &Pos, plies: u32, rule: u32) -> (Vec<Mv>, Vec<Pos>) {
    let mut x: u64 = 0x9E3779B97F4A7C15u64.wrapping_mul(rule as u64 + 1);
    let mut cur = *root;
    let mut line = vec![];
    let mut positions = vec![cur];
    for _ in 0..plies {
        let mut l = cur.legal();
        if l.is_empty() {
            break;
        }
        l.sort_by_key(|m| m.uci());
        let alive: Vec<Mv> = l.iter().filter(|m| !cur.apply(m).normalised().legal().is_empty()).cloned().collect();
        let mut pool = if alive.is_empty() { l } else { alive };
        if rule & 1 == 1 {
            let quiet: Vec<Mv> = pool.iter().filter(|m| m.captured == 0 && !matches!(m.kind, MvKind::Double | MvKind::Promotion | MvKind::EnPassant) && kind_of(cur.b[m.from as usize]) != P).cloned().collect();
            // every 16th ply any move is allowed so that the game still develops
            if !quiet.is_empty() && line.len() % 16 != 15 {
                pool = quiet;
            }
        }
        x = x.wrapping_mul(6364136223846793005).wrapping_add(1442695040888963407);
        let m = pool[((x >> 33) as usize) % pool.len()];
        cur = cur.apply(&m).normalised();
        line.push(m);
        positions.push(cur);
    }
    (line, positions)
}

/// Layered BFS over model positions from `root`. Every state is visited once (first,
/// i.e. shortest, path). Successors are the model's legal moves; the engine's
/// agreement with them is what C01/C02 check in the visitor.
/// `expand_cap`: do not expand states with more than this many ... (unused) .
pub fn bfs(root: &Pos, depth: Option<u32>, _expand_cap: Option<u32>, space: &str, visit: Visitor) -> (Acc, Vec<u64>, bool) {
    struct Node {
        pos: Pos,
        parent: u32,
        mv: Option<Mv>,
    }
    let mut nodes: Vec<Node> = vec![Node { pos: *root, parent: u32::MAX, mv: None }];
    let mut index: HashMap<[u8; 34], u32> = HashMap::new();
    index.insert(root.key(), 0);
    let mut layer: Vec<u32> = vec![0];
    let mut total = Acc::new();
    let mut layers = vec![];
    let mut d = 0u32;
    let mut complete = false;
    loop {
        layers.push(layer.len() as u64);
        // visit this layer in parallel; collect successors
        let expand = depth.map_or(true, |m| d < m);
        let succ: Mutex<Vec<(u32, Mv, Pos)>> = Mutex::new(Vec::new());
        let nodes_ref = &nodes;
        let layer_ref = &layer;
        let acc = par_items(layer_ref, &|i, &ni, acc| {
            // reconstruct path
            let mut path: Vec<Mv> = Vec::new();
            let mut cur = ni;
            while let Some(m) = nodes_ref[cur as usize].mv {
                path.push(m);
                cur = nodes_ref[cur as usize].parent;
            }
            path.reverse();
            let pos = &nodes_ref[ni as usize].pos;
            let ctx = StateCtx { pos, root: Some(root), path: &path, space, index: i as u64 };
            acc.states += 1;
            crate::bind::note_case_pos(ctx.pos);
            visit(&ctx, acc);
            if expand {
                let mut local = Vec::new();
                for m in pos.legal() {
                    local.push((ni, m, pos.apply(&m).normalised()));
                }
                succ.lock().unwrap().extend(local);
            }
        });
        total.merge(acc);
        if !expand {
            break;
        }
        let mut succ = succ.into_inner().unwrap();
        // deterministic order regardless of thread timing
        succ.sort_by(|a, b| (a.0, a.1.from, a.1.to, a.1.promo).cmp(&(b.0, b.1.from, b.1.to, b.1.promo)));
        let mut next = vec![];
        for (parent, mv, pos) in succ {
            let k = pos.key();
            if !index.contains_key(&k) {
                let id = nodes.len() as u32;
                index.insert(k, id);
                nodes.push(Node { pos, parent, mv: Some(mv) });
                next.push(id);
            }
        }
        if next.is_empty() {
            complete = true;
            break;
        }
        layer = next;
        d += 1;
    }
    (total, layers, complete)
}

// ---------------------------------------------------------------- Acc <-> JSON (worker processes report through a pipe)

impl Acc {
    pub fn to_json(&self) -> J {
        json::obj(vec![
            ("states", json::i(self.states)),
            ("transitions", json::i(self.transitions)),
            ("evaluations", json::i(self.evaluations)),
            ("n_violations", json::i(self.n_violations)),
            ("counts", json::counts_json(&self.counts)),
            ("maxima", json::counts_json(&self.maxima)),
            ("violations", J::Arr(self.violations.iter().map(|v| json::obj(vec![("key", json::s(v.key.clone())), ("what", json::s(v.what.clone())), ("replay", v.replay.clone())])).collect())),
            ("other_keys", json::strs(&self.other_keys.iter().cloned().collect::<Vec<_>>())),
            ("samples", J::Arr(self.samples.clone())),
            ("notes", json::strs(&self.notes)),
            ("errors", json::strs(&self.errors)),
            ("outcomes", json::strs(&self.outcomes.iter().cloned().collect::<Vec<_>>())),
        ])
    }
    pub fn from_json(j: &J) -> Acc {
        let mut a = Acc::new();
        let n = |k: &str| j.get(k).and_then(|x| x.as_i()).unwrap_or(0) as u64;
        a.states = n("states");
        a.transitions = n("transitions");
        a.evaluations = n("evaluations");
        a.n_violations = n("n_violations");
        if let Some(J::Obj(v)) = j.get("counts") {
            for (k, x) in v {
                a.counts.insert(k.clone(), x.as_i().unwrap_or(0) as u64);
            }
        }
        if let Some(J::Obj(v)) = j.get("maxima") {
            for (k, x) in v {
                a.maxima.insert(k.clone(), x.as_i().unwrap_or(0) as u64);
            }
        }
        if let Some(J::Arr(v)) = j.get("violations") {
            for x in v {
                a.violations.push(Violation { key: x.get("key").and_then(|k| k.as_str()).unwrap_or("").to_string(), what: x.get("what").and_then(|k| k.as_str()).unwrap_or("").to_string(), replay: x.get("replay").cloned().unwrap_or(J::Null) });
            }
        }
        let strv = |k: &str| -> Vec<String> { j.get(k).and_then(|x| x.as_arr()).map(|v| v.iter().filter_map(|s| s.as_str().map(|s| s.to_string())).collect()).unwrap_or_default() };
        a.other_keys = strv("other_keys").into_iter().collect();
        if let Some(J::Arr(v)) = j.get("samples") {
            a.samples = v.clone();
        }
        a.notes = strv("notes");
        a.errors = strv("errors");
        a.outcomes = strv("outcomes").into_iter().collect();
        a
    }
}

/// Run `argv` worker processes of this same binary (or another flavour of it) in parallel, each
/// printing one line `ACC <json>`; merge the accumulators. A worker that dies or prints no ACC
/// line is a machinery error.
pub fn run_workers(bin: &str, arglists: Vec<Vec<String>>, parallel: usize) -> Acc {
    use std::process::{Command, Stdio};
    let next = AtomicUsize::new(0);
    let total = Mutex::new(Acc::new());
    std::thread::scope(|sc| {
        for _ in 0..parallel.min(arglists.len()).max(1) {
            sc.spawn(|| loop {
                let i = next.fetch_add(1, Relaxed);
                if i >= arglists.len() {
                    break;
                }
                let out = Command::new(bin).args(&arglists[i]).stdin(Stdio::null()).stderr(Stdio::piped()).output();
                let mut acc = Acc::new();
                match out {
                    Ok(o) => {
                        let text = String::from_utf8_lossy(&o.stdout);
                        let mut found = false;
                        for line in text.lines() {
                            if let Some(rest) = line.strip_prefix("ACC ") {
                                match json::parse(rest) {
                                    Ok(j) => {
                                        acc.merge(Acc::from_json(&j));
                                        found = true;
                                    }
                                    Err(e) => acc.errors.push(format!("worker {:?}: bad ACC line: {}", arglists[i], e)),
                                }
                            }
                        }
                        // a worker that ended at a verdict it could not deliver by unwinding (see bind::abort_verdict)
                        if let Some(rest) = text.lines().find_map(|l| l.strip_prefix("ABORT-VERDICT ")) {
                            let mut it = rest.splitn(2, '\t');
                            let path = it.next().unwrap_or("").to_string();
                            let what = it.next().unwrap_or("").to_string();
                            acc.violation(format!("abort|{}", what.chars().take(160).collect::<String>()), format!("{} [worker {:?}; artefact {}]", what, arglists[i], path), json::obj(vec![("kind", json::s("abort")), ("artefact", json::s(path))]));
                            found = true;
                        }
                        if !found {
                            let err = String::from_utf8_lossy(&o.stderr);
                            acc.errors.push(format!("worker {:?} produced no result (status {:?}): {} {}", arglists[i], o.status.code(), text.lines().last().unwrap_or(""), err.lines().last().unwrap_or("")));
                        }
                    }
                    Err(e) => acc.errors.push(format!("cannot start worker {}: {}", bin, e)),
                }
                total.lock().unwrap().merge(acc);
            });
        }
    });
    total.into_inner().unwrap()
}

pub fn self_exe() -> String {
    std::env::current_exe().map(|p| p.to_string_lossy().to_string()).unwrap_or_else(|_| "/verif/target-checked/checked/harness".into())
}
