//! Verification harness for Daniel729/chess (RustyBait). Compiles the
//! repository's sources in place (DESIGN.md 2.1) and decides the properties of
//! /verif/properties.jsonl by exhaustive enumeration of bounded spaces.
#![allow(clippy::all)]
#![allow(unused_imports, unused_macros)]

#[macro_use]
mod capture;
pub mod verif_hooks;

#[path = "../repo/src/chess/mod.rs"]
pub mod chess;
#[path = "../repo/src/search.rs"]
#[allow(dead_code)]
mod search;
#[path = "../repo/src/uci.rs"]
#[allow(dead_code)]
mod uci;
#[path = "../repo/src/autoplay.rs"]
#[allow(dead_code)]
mod autoplay;
mod constants;

mod bind;
mod explore;
mod json;
mod props;
mod realbin;
mod refchess;
mod report;
mod sched;
mod srch;
mod universe;

use std::time::Instant;

fn usage() -> ! {
    eprintln!("usage: harness <C01..C20> <quick|thorough> [seed]\n       harness replay <file>\n       harness selftest\n       harness count");
    std::process::exit(2)
}

fn main() {
    let args: Vec<String> = std::env::args().skip(1).collect();
    if args.is_empty() {
        usage();
    }
    // anyhow captures a backtrace for every error when these are set (global lock; not an observable)
    // SAFETY: no other thread exists yet
    unsafe {
        std::env::set_var("RUST_BACKTRACE", "0");
        std::env::set_var("RUST_LIB_BACKTRACE", "0");
    }
    // run on a big-stack thread (deep search recursion in the checked build)
    let child = std::thread::Builder::new().stack_size(512 << 20).spawn(move || real_main(args)).unwrap();
    let code = child.join().unwrap_or(2);
    std::process::exit(code);
}

fn model_selftest(tier: &str) -> Result<String, String> {
    let cap = if tier == "thorough" { 200_000_000 } else { 5_000_000 };
    refchess::self_test(cap)
}

fn real_main(mut args: Vec<String>) -> i32 {
    bind::install_panic_hook();
    let worker = args.iter().any(|a| a == "--worker");
    args.retain(|a| a != "--worker");
    let shard: Option<(usize, usize)> = args.iter().find_map(|a| a.strip_prefix("--shard=")).and_then(|v| {
        let mut it = v.split('/');
        Some((it.next()?.parse().ok()?, it.next()?.parse().ok()?))
    });
    args.retain(|a| !a.starts_with("--shard="));
    let autoplay: Option<(u64, u64)> = args.iter().find_map(|a| a.strip_prefix("--autoplay=")).and_then(|v| {
        let mut it = v.split('/');
        Some((it.next()?.parse().ok()?, it.next()?.parse().ok()?))
    });
    args.retain(|a| !a.starts_with("--autoplay="));
    match refchess::Keys::load(&format!("{}/zobrist_bytes.bin", std::env::var("VERIF_REPO").unwrap_or_else(|_| "/repo".to_string()))) {
        Ok(k) => {
            let _ = props::core::KEYS.set(k);
        }
        Err(e) => {
            out!("MACHINERY-ERROR: {}", e);
            return 2;
        }
    }
    match args[0].as_str() {
        "selftest" => match model_selftest(args.get(1).map(|s| s.as_str()).unwrap_or("quick")) {
            Ok(m) => {
                out!("{}", m);
                0
            }
            Err(e) => {
                out!("MACHINERY-ERROR: {}", e);
                2
            }
        },
        "count" => {
            use universe::Universe::*;
            for u in [U2, U3, UC { extras: 0 }, UC { extras: 1 }, UE { extras: 0, capturer_files: None, slider_only: false }, UE { extras: 1, capturer_files: Some(vec![1, 4, 6]), slider_only: true }, UP, U4 { a: 5, b: 11, files: Some((3, 4)) }, UPIN, UDBL, UCE, UEA, UEX, UPP, UPQ, UCK { extras: 0 }, UCK { extras: 1 }] {
                let t = Instant::now();
                out!("{} = {} ({:?})", u.name(), universe::count(&u), t.elapsed());
            }
            0
        }
        "eval" => {
            for fen in &args[1..] {
                match refchess::parse_fen_strict(fen) {
                    Ok(p) => out!("{}: sum|psq| mid {} end {} (endgame below {}), sane {}, legal {}", fen, refchess::psq_abs_sum(&p.pos, false), refchess::psq_abs_sum(&p.pos, true), refchess::endgame_threshold_total(), p.pos.sane(), p.pos.legal().len()),
                    Err(e) => out!("{}: {}", fen, e),
                }
            }
            0
        }
        "e5dbg" => {
            // harness e5dbg <scenario substring> [bound]: all distinct signatures of one scenario script with the C14 oracle's verdict
            let want = args.get(1).cloned().unwrap_or_default();
            let bound: usize = args.get(2).and_then(|x| x.parse().ok()).unwrap_or(2);
            for sc in props::c14::scenarios().into_iter().filter(|s| s.name.contains(&want)) {
                out!("== {}", sc.name);
                let seen = std::sync::Mutex::new(std::collections::BTreeMap::<String, (u64, Option<String>)>::new());
                let oracle = |e: &sched::Exec| -> Option<String> {
                    let v = props::c14::oracle(e);
                    let sig = e.log.iter().map(|ev| match ev { sched::Ev::Deliver(_) => String::new(), sched::Ev::Consume(l) => format!("<{}>", l.split_whitespace().take(2).collect::<Vec<_>>().join(" ")), sched::Ev::Out(t, l) => if l.starts_with("info") { String::new() } else { format!("{}:{}", t, l) } }).filter(|x| !x.is_empty()).collect::<Vec<_>>().join(" ");
                    let evs = e.events.iter().filter(|(t, n)| e.names.get(*t) == Some(&"timer") || *n == "exit" || n.contains("flag") || n.contains("raise")).map(|(t, n)| format!("{}{}.{}", e.names.get(*t).unwrap_or(&"?"), t, n)).collect::<Vec<_>>().join(",");
                    let sig = if std::env::var_os("E5DBG_EVENTS").is_some() { format!("{} || {}", sig, evs) } else { sig };
                    let mut g = seen.lock().unwrap();
                    let ent = g.entry(sig).or_insert((0, v.clone()));
                    ent.0 += 1;
                    None
                };
                sched::SLEEPY_TIMERS.store(sc.name.contains("live timer"), std::sync::atomic::Ordering::Relaxed);
                let r = sched::explore(&sc.lines, bound, props::c14::HORIZON, &oracle, 200_000);
                sched::SLEEPY_TIMERS.store(false, std::sync::atomic::Ordering::Relaxed);
                out!("executions {}", r.executions);
                for (k, (n, v)) in seen.lock().unwrap().iter() {
                    out!("  x{} {} => {:?}", n, k, v);
                }
            }
            0
        }
        "c12bench" => {
            let p = refchess::parse_fen_strict("8/8/6K1/1Pp5/3k4/8/8/8 w - c6 0 1").unwrap().pos;
            let strings = props::c12::alphabet();
            let mut acc = explore::Acc::new();
            let t = Instant::now();
            props::c12::alphabet_in_state(&p, &strings, &mut acc);
            out!("alphabet in one state: {:?}, evaluations {}", t.elapsed(), acc.evaluations);
            0
        }
        "replay" => {
            let Some(path) = args.get(1) else { usage() };
            replay(path, worker)
        }
        prop => {
            let tier = args.get(1).map(|s| s.as_str()).unwrap_or("quick").to_string();
            if tier != "quick" && tier != "thorough" {
                usage();
            }
            let seed: i64 = args.get(2).and_then(|s| s.parse().ok()).or_else(|| std::env::var("VERIF_SEED").ok().and_then(|s| s.parse().ok())).unwrap_or(0);
            let t0 = Instant::now();
            if worker {
                // worker processes report their accumulator on stdout and never print verdict lines
                let acc = match prop {
                    "C17" => props::c17::run_local(&tier, seed).0,
                    "C14" => {
                        let (i, n) = shard.unwrap_or((0, 1));
                        props::c14::run_shard(&tier, i, n)
                    }
                    "C13" => {
                        let (i, n) = shard.unwrap_or((0, 1));
                        props::c13::run_shard(&tier, i, n)
                    }
                    "C15" => {
                        let (b, h) = autoplay.unwrap_or((1, 620));
                        props::c15::autoplay_worker(b, h)
                    }
                    "C19" => {
                        let mut a = explore::Acc::new();
                        match shard {
                            Some((i, n)) => props::c19::schedule_invariance(if tier == "quick" { 2 } else { 3 }, i, n, &mut a),
                            None => a.notes.push(props::c19::fresh_digest(&tier)),
                        }
                        a
                    }
                    _ => {
                        out!("MACHINERY-ERROR: no worker mode for {}", prop);
                        return 2;
                    }
                };
                out!("ACC {}", acc.to_json().compact());
                return 0;
            }
            let note = match model_selftest(&tier) {
                Ok(m) => m,
                Err(e) => {
                    out!("MACHINERY-ERROR: reference model failed its self-test: {}", e);
                    return 2;
                }
            };
            out!("{} [{:.1}s]", note, t0.elapsed().as_secs_f64());
            let outcome = match prop {
                "C01" | "C02" | "C03" | "C04" | "C11" | "C16" => props::core::run(prop, &tier, seed),
                "C05" => props::c05::run(&tier, seed),
                "C12" => props::c12::run(&tier, seed),
                "C20" => props::c20::run(&tier, seed),
                "C17" => props::c17::run(&tier, seed),
                "C06" | "C18" => props::e3::run(prop, &tier, seed),
                "C08" => props::c08::run(&tier, seed),
                "C07" => props::c07::run(&tier, seed),
                "C09" => props::c09::run(&tier, seed),
                "C10" => props::c10::run(&tier, seed),
                "C14" => props::c14::run(&tier, seed),
                "C13" => props::c13::run(&tier, seed),
                "C15" => props::c15::run(&tier, seed),
                "C19" => props::c19::run(&tier, seed),
                _ => {
                    out!("MACHINERY-ERROR: unknown property {}", prop);
                    return 2;
                }
            };
            report::finish(prop, &tier, seed, t0, outcome, &note)
        }
    }
}

fn replay(path: &str, worker: bool) -> i32 {
    let text = match std::fs::read_to_string(path) {
        Ok(t) => t,
        Err(e) => {
            out!("MACHINERY-ERROR: {}: {}", path, e);
            return 2;
        }
    };
    let j = match json::parse(&text) {
        Ok(j) => j,
        Err(e) => {
            out!("MACHINERY-ERROR: {}: {}", path, e);
            return 2;
        }
    };
    let prop = j.get("property").and_then(|x| x.as_str()).unwrap_or("").to_string();
    let Some(r) = j.get("replay") else {
        out!("MACHINERY-ERROR: no replay section");
        return 2;
    };
    let kind = r.get("kind").and_then(|x| x.as_str()).unwrap_or("");
    // every replay is executed twice and must give identical observations
    let run = || -> Result<explore::Acc, String> {
        match kind {
            "state" | "c01-real-perft" => props::core::replay_state(&prop, r),
            "c05-variant" | "c05-collision" | "c05-reached" => props::c05::replay(r),
            "c12-string" => props::c12::replay(r),
            "c17-string" => props::c17::replay(r),
            "e3-word" | "e3-interrupted" | "e3-selfplay" => props::e3::replay(&prop, r),
            "c08-tiny" | "c08-repetition" => props::c08::replay(r),
            "c07-stop" => props::c07::replay(r),
            "c09-root" => props::c09::replay(r),
            "c10-root" | "c10-history" | "c10-game" => props::c10::replay(r),
            "e5-schedule" if prop == "C19" => props::c19::replay(r),
            "e5-schedule" | "c14-deep" | "c14-grammar" | "c14-real" => props::c14::replay(r, &props::c14::oracle),
            "c13-case" => props::c13::replay(r),
            "c15-mobility" | "c15-stack" | "c15-autoplay" | "c15-real-auto" => props::c15::replay(r),
            "c19-history" | "c19-process" | "c19-inert" | "c19-real" | "c19-large" | "c19-clock" => props::c19::replay(r),
            "subject-panic" => Err(format!("this violation is a panic inside the engine met while exploring ({}); it has no single-case replay: re-run the check", r.get("panic").and_then(|x| x.as_str()).unwrap_or(""))),
            _ => Err(format!("unknown replay kind {:?}", kind)),
        }
    };
    let (a, b) = (run(), run());
    if worker {
        match a {
            Ok(a) => out!("ACC {}", a.to_json().compact()),
            Err(e) => out!("MACHINERY-ERROR: {}", e),
        }
        return 0;
    }
    match (a, b) {
        (Ok(a), Ok(b)) => {
            let ka: Vec<_> = a.violations.iter().map(|v| (&v.key, &v.what)).collect();
            let kb: Vec<_> = b.violations.iter().map(|v| (&v.key, &v.what)).collect();
            if ka != kb {
                out!("MACHINERY-ERROR: replay is not deterministic");
                return 2;
            }
            if a.violations.is_empty() {
                out!("replay of {}: property {} holds on this case", path, prop);
                0
            } else {
                for v in &a.violations {
                    out!("VIOLATION property={} replay={}", prop, path);
                    out!("  what: {}", v.what);
                }
                1
            }
        }
        (Err(e), _) | (_, Err(e)) => {
            out!("MACHINERY-ERROR: {}", e);
            2
        }
    }
}
