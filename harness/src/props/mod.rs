pub mod core;
pub mod c05;
pub mod c12;
pub mod c20;
pub mod c17;
pub mod e3;
pub mod c08;
pub mod c07;
