pub mod core;
