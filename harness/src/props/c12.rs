//! C12: move text round-trips; `position ... moves` accepts exactly legal moves.
#![allow(dead_code)]

use crate::bind::*;
use crate::chess::move_struct::Move;
use crate::explore::*;
use crate::json::{self, J};
use crate::props::core::*;
use crate::refchess::*;
use crate::report::Outcome;
use crate::universe::Universe;
use crate::verif_hooks::{in_seq, SeqCtx};

/// run the real uci_talk over scripted stdin on this thread; returns the captured transcript
pub fn uci_seq(lines: Vec<String>) -> Result<Vec<String>, String> {
    crate::bind::note_case_text(&format!("uci session: {}", lines.iter().take(6).cloned().collect::<Vec<_>>().join(" / ")));
    let mut ctx = SeqCtx::new();
    ctx.input = lines.into();
    let (r, ctx) = in_seq(ctx, || guarded(|| crate::uci::uci_talk()));
    match r {
        Ok(Ok(())) => Ok(ctx.transcript),
        Ok(Err(e)) => Err(format!("uci_talk returned an error: {}", e)),
        Err(p) => Err(format!("uci_talk panicked: {}", p)),
    }
}

#[derive(Debug, Clone, PartialEq)]
pub enum Shown {
    NoGame,
    Game { hash: String, fen: String, pgn: String, diagram: Vec<String> },
    Garbled(String),
}

pub fn parse_show(entry: &str) -> Shown {
    if entry.starts_with("error: No game to show") {
        return Shown::NoGame;
    }
    let lines: Vec<&str> = entry.split('\n').collect();
    let mut hash = None;
    let mut fen = None;
    let mut pgn = None;
    let mut diagram = vec![];
    for l in &lines {
        if let Some(h) = l.strip_prefix("Hash: ") {
            hash = Some(h.to_string());
        } else if let Some(f) = l.strip_prefix("Fen: ") {
            fen = Some(f.to_string());
        } else if let Some(p) = l.strip_prefix("PGN: ") {
            pgn = Some(p.to_string());
        } else if l.len() > 2 && l.as_bytes()[0].is_ascii_digit() && l.contains('|') {
            diagram.push(l.to_string());
        }
    }
    match (hash, fen, pgn) {
        (Some(hash), Some(fen), Some(pgn)) => Shown::Game { hash, fen, pgn, diagram },
        _ => Shown::Garbled(entry.to_string()),
    }
}

pub fn alphabet() -> Vec<String> {
    let mut v = Vec::with_capacity(28672);
    for from in 0..64u8 {
        for to in 0..64u8 {
            for suf in ["", "q", "r", "b", "n", "k", "p"] {
                v.push(format!("{}{}{}", sq_name(from), sq_name(to), suf));
            }
        }
    }
    v
}

fn vio(acc: &mut Acc, p: &Pos, s: &str, what: String) {
    acc.violation(format!("position|{}|{}", p.fen4(false), s), format!("{} [position fen {} moves {}]", what, p.fen6(false), s), json::obj(vec![("kind", json::s("c12-string")), ("fen", json::s(p.fen6(false))), ("moves", json::s(s))]));
}

/// (b) the complete move-shape alphabet against the real `position` command in one state
pub fn alphabet_in_state(p: &Pos, strings: &[String], acc: &mut Acc) {
    // small batches keep each session's transcript small (allocator-friendly under 16 threads)
    // the three FEN forms the reader accepts (six, four and five fields) take turns chunk by chunk: `moves` must be
    // recognised after each of them
    let forms = [p.fen6(false), p.fen4(false), format!("{} 0", p.fen4(false))];
    for (k, chunk) in strings.chunks(512).enumerate() {
        let prefix = format!("position fen {} moves", forms[k % 3]);
        alphabet_batch(p, &prefix, chunk, acc);
    }
}

/// the same, with the state given as `position startpos moves <path>` (the other branch of the position command)
pub fn alphabet_after_startpos(path: &[String], strings: &[String], acc: &mut Acc) {
    let mut p = Pos::startpos();
    for t in path {
        let Some(m) = p.legal().into_iter().find(|m| &m.uci() == t) else { return };
        p = p.apply(&m).normalised();
    }
    let prefix = if path.is_empty() { "position startpos moves".to_string() } else { format!("position startpos moves {}", path.join(" ")) };
    for chunk in strings.chunks(512) {
        alphabet_batch(&p, &prefix, chunk, acc);
    }
}

fn alphabet_batch(p: &Pos, prefix: &str, strings: &[String], acc: &mut Acc) {
    let legal = p.legal();
    let fen = p.fen6(false);
    let base4 = p.fen4(false);
    let mut script = Vec::with_capacity(strings.len() * 3 + 1);
    for s in strings {
        script.push(format!("{} {}", prefix, s));
        script.push("show".to_string());
        script.push("isready".to_string());
    }
    let transcript = match uci_seq(script) {
        Ok(t) => t,
        Err(e) => {
            // find the offending string by bisection-free fallback: run them one by one
            let mut blamed = false;
            for s in strings {
                if let Err(e1) = uci_seq(vec![format!("{} {}", prefix, s), "show".into()]) {
                    vio(acc, p, s, format!("the session died: {}", e1));
                    blamed = true;
                    break;
                }
            }
            if !blamed {
                acc.errors.push(format!("uci_talk failed on a batch but on no single string: {} ({})", e, fen));
            }
            return;
        }
    };
    let mut it = transcript.iter();
    for s in strings {
        let mut seg: Vec<&String> = vec![];
        let mut closed = false;
        for e in it.by_ref() {
            if e == "readyok" {
                closed = true;
                break;
            }
            seg.push(e);
        }
        if !closed {
            acc.errors.push(format!("transcript ended early at string {} in {}", s, fen));
            return;
        }
        acc.evaluations += 1;
        let is_legal = legal.iter().find(|m| &m.uci() == s);
        let errors: Vec<&&String> = seg.iter().filter(|e| e.starts_with("error:") && !e.starts_with("error: No game to show")).collect();
        let shown = seg.last().map(|e| parse_show(e)).unwrap_or(Shown::Garbled("nothing printed".into()));
        match is_legal {
            Some(m) => {
                acc.count("legal strings");
                acc.transitions += 1;
                let succ = p.apply(m);
                if !errors.is_empty() {
                    vio(acc, p, s, format!("legal move {} was refused: {}", s, errors[0]));
                    continue;
                }
                match shown {
                    Shown::Game { fen: f, hash, .. } => {
                        let f4: String = f.split(' ').take(4).collect::<Vec<_>>().join(" ");
                        if f4 != succ.fen4(false) {
                            vio(acc, p, s, format!("{} was accepted but the position shown is {:?}, expected {:?}", s, f4, succ.fen4(false)));
                        } else if hash != format!("{:X}", keys().hash(&succ)) {
                            vio(acc, p, s, format!("{} was accepted, position right, but the hash shown is {}", s, hash));
                        }
                    }
                    other => vio(acc, p, s, format!("{} was accepted but `show` printed {:?}", s, other)),
                }
            }
            None => {
                acc.count("illegal strings");
                if errors.is_empty() {
                    let what = match &shown {
                        Shown::Game { fen: f, .. } => format!("and the position shown is {:?}", f),
                        o => format!("and `show` printed {:?}", o),
                    };
                    vio(acc, p, s, format!("{} is not the text of a legal move but no error was reported {}", s, what));
                    continue;
                }
                match shown {
                    Shown::NoGame => acc.count("rejected: game dropped"),
                    Shown::Game { fen: f, .. } => {
                        let f4: String = f.split(' ').take(4).collect::<Vec<_>>().join(" ");
                        if f4 != base4 {
                            vio(acc, p, s, format!("{} was rejected with an error, yet the position shown is {:?} instead of the position before it {:?}", s, f4, base4));
                        } else {
                            acc.count("rejected: position kept");
                        }
                    }
                    Shown::Garbled(g) => vio(acc, p, s, format!("{} rejected, but `show` printed {:?}", s, g)),
                }
            }
        }
    }
}

/// (a) text round trip of every legal move in a state
pub fn roundtrip_visit(ctx: &StateCtx, acc: &mut Acc) {
    let model: Vec<Mv> = ctx.pos.legal();
    let Ok(mut g) = load(ctx.pos) else {
        acc.violation(format!("load|{}", ctx.pos.fen4(false)), "cannot load", ctx.describe());
        return;
    };
    let list = moves(&mut g, true);
    let mut texts: Vec<String> = vec![];
    for m in list.iter() {
        let t = m.uci_notation();
        acc.evaluations += 1;
        let b = t.as_bytes();
        let shape_ok = (b.len() == 4 || b.len() == 5) && (b'a'..=b'h').contains(&b[0]) && (b'1'..=b'8').contains(&b[1]) && (b'a'..=b'h').contains(&b[2]) && (b'1'..=b'8').contains(&b[3]) && (b.len() == 4 || b"qrbn".contains(&b[4]));
        let key = format!("text|{}|{}", ctx.pos.fen4(false), t);
        if !shape_ok {
            acc.violation(key.clone(), format!("move text {:?} is not UCI long algebraic [{}]", t, ctx.pos.fen4(false)), ctx.describe());
        }
        // model move with this text must exist and agree on kind
        match model.iter().find(|x| x.uci() == t) {
            None => acc.violation(key.clone(), format!("move text {:?} is not the text of a legal move [{}]", t, ctx.pos.fen4(false)), ctx.describe()),
            Some(x) => {
                let kind_ok = match (m, x.kind) {
                    (Move::CastlingShort { .. }, MvKind::CastleShort) | (Move::CastlingLong { .. }, MvKind::CastleLong) | (Move::EnPassant { .. }, MvKind::EnPassant) | (Move::Promotion { .. }, MvKind::Promotion) | (Move::Normal { .. }, MvKind::Normal) | (Move::Normal { .. }, MvKind::Double) => true,
                    _ => false,
                };
                if !kind_ok {
                    acc.violation(key.clone(), format!("move {:?} has text of a {:?} move [{}]", t, x.kind, ctx.pos.fen4(false)), ctx.describe());
                }
            }
        }
        match guarded(|| Move::from_uci_notation(&t, &g)) {
            Ok(Some(back)) if back == *m => {}
            Ok(Some(back)) => acc.violation(key.clone(), format!("reading {:?} back gives a different move ({}) [{}]", t, back.uci_notation(), ctx.pos.fen4(false)), ctx.describe()),
            Ok(None) => acc.violation(key.clone(), format!("reading {:?} back gives no move [{}]", t, ctx.pos.fen4(false)), ctx.describe()),
            Err(p) => acc.violation(key.clone(), format!("reading {:?} back panicked: {} [{}]", t, p, ctx.pos.fen4(false)), ctx.describe()),
        }
        acc.transitions += 1;
        texts.push(t);
    }
    let n = texts.len();
    texts.sort();
    texts.dedup();
    if texts.len() != n {
        acc.violation(format!("text-dup|{}", ctx.pos.fen4(false)), format!("two legal moves share a text [{}]", ctx.pos.fen4(false)), ctx.describe());
    }
}

/// (c) a bad string after a good one; a good command after a rejected one
pub fn sequences_in_state(p: &Pos, acc: &mut Acc) {
    let legal = p.legal();
    for (k1, m1) in legal.iter().enumerate() {
        let fen = match k1 % 3 {
            0 => p.fen6(false),
            1 => p.fen4(false),
            _ => format!("{} 0", p.fen4(false)),
        };
        let succ = p.apply(m1);
        let succ_legal: Vec<String> = succ.legal().iter().map(|m| m.uci()).collect();
        let mut bads: Vec<String> = legal.iter().map(|m| m.uci()).filter(|t| !succ_legal.contains(t)).take(3).collect();
        bads.push("a1a1".into());
        for bad in bads {
            if succ_legal.contains(&bad) {
                continue;
            }
            let script = vec![format!("position fen {} moves {} {}", fen, m1.uci(), bad), "show".into(), "isready".into(), format!("position fen {} moves {}", fen, m1.uci()), "show".into()];
            acc.evaluations += 1;
            let seqtext = format!("{} {}", m1.uci(), bad);
            match uci_seq(script) {
                Err(e) => vio(acc, p, &seqtext, format!("session died: {}", e)),
                Ok(t) => {
                    let cut = t.iter().position(|e| e == "readyok").unwrap_or(t.len());
                    let (first, second) = (&t[..cut], &t[(cut + 1).min(t.len())..]);
                    let errs = first.iter().filter(|e| e.starts_with("error:") && !e.starts_with("error: No game to show")).count();
                    if errs == 0 {
                        vio(acc, p, &seqtext, "bad string after a good one was not reported".into());
                    }
                    match first.last().map(|e| parse_show(e)) {
                        Some(Shown::NoGame) => {}
                        Some(Shown::Game { fen: f, .. }) => {
                            let f4: String = f.split(' ').take(4).collect::<Vec<_>>().join(" ");
                            if f4 != succ.fen4(false) {
                                vio(acc, p, &seqtext, format!("after the rejected string the position shown is {:?}; expected the position before it {:?} or no game", f4, succ.fen4(false)));
                            }
                        }
                        o => vio(acc, p, &seqtext, format!("show printed {:?}", o)),
                    }
                    // the next, correct command is honoured
                    if second.iter().any(|e| e.starts_with("error:")) {
                        vio(acc, p, &seqtext, format!("a correct position command after a rejected one was refused: {:?}", second));
                    } else {
                        match second.last().map(|e| parse_show(e)) {
                            Some(Shown::Game { fen: f, .. }) if f.split(' ').take(4).collect::<Vec<_>>().join(" ") == succ.fen4(false) => {}
                            o => vio(acc, p, &seqtext, format!("after a correct position command show printed {:?}", o)),
                        }
                    }
                    acc.transitions += 1;
                }
            }
        }
    }
}

/// (e) strings that are not move-shaped at all. The statement says "on any other string reports an error"; the
/// quantifier's alphabet is the move-shaped one, these few are the strings a GUI or a user can be expected to send
/// besides (the UCI null move, castling and capture notations of other formats, truncated and over-long texts,
/// upper-case squares, multi-byte characters). Deliberately absent: an upper-case promotion letter and characters
/// after a complete promotion text - the engine's reader accepts those by design (explicit `'q' | 'Q'` arms) and the
/// quantifier does not cover them.
pub fn odd_tokens() -> Vec<String> {
    ["0000", "00000", "(none)", "none", "null", "pass", "--", "@@@@", "e2", "e2e", "O-O", "O-O-O", "0-0", "0-0-0", "e2-e4", "e2xe4", "Ng1f3", "g1f3+", "e2e4e5", "e2e4=q", "E2E4", "A7A8Q", "\u{e9}2e4", "e2e4\u{e9}", "e2e4\u{2654}", "a0a1", "a1a9", "i1a1", "a1i1"].iter().map(|s| s.to_string()).collect()
}

/// (f) squares just off the board: a file character from '`' to 'p' (one before 'a' up to eight past 'h', so that an
/// index that is only range-checked after flattening - file + 8 * rank - wraps into a real square) or a rank digit 0 / 9,
/// paired with every real square in either role. None of these strings names a move.
pub fn off_board_strings() -> Vec<String> {
    let mut off: Vec<String> = vec![];
    for f in b'`'..=b'p' {
        for r in b'0'..=b'9' {
            let real_file = (b'a'..=b'h').contains(&f);
            let real_rank = (b'1'..=b'8').contains(&r);
            if real_file && real_rank {
                continue;
            }
            if !real_file && !real_rank {
                continue;
            }
            off.push(format!("{}{}", f as char, r as char));
        }
    }
    let mut v = Vec::with_capacity(off.len() * 128);
    for o in &off {
        for s in 0..64u8 {
            v.push(format!("{}{}", o, sq_name(s)));
            v.push(format!("{}{}", sq_name(s), o));
        }
    }
    v
}

/// (d) two `position` commands in a row (and with a search in between): the second one must be honoured as if it
/// were the first command of the session, whatever the first one was - a longer game from the same start (the GUI
/// takes moves back), a shorter one, a sibling line, another start position. Every ordered pair over the items
/// {start position, Kiwipete (as FEN)} x {every path of length <= 2 over the first five moves in text order, plus the
/// castling moves}.
pub fn command_pairs(acc: &mut Acc) -> SpaceReport {
    let t0 = std::time::Instant::now();
    let mut items: Vec<(String, Pos)> = vec![];
    for (setup, root) in [("startpos".to_string(), Pos::startpos()), (format!("fen {}", ROOT_KIWI), parse_fen_strict(ROOT_KIWI).unwrap().pos.normalised())] {
        let pick = |p: &Pos| -> Vec<Mv> {
            let mut l = p.legal();
            l.sort_by_key(|m| m.uci());
            let mut v: Vec<Mv> = l.iter().take(5).cloned().collect();
            v.extend(l.iter().filter(|m| matches!(m.kind, MvKind::CastleShort | MvKind::CastleLong)).cloned());
            v
        };
        items.push((format!("position {}", setup), root));
        for m1 in pick(&root) {
            let p1 = root.apply(&m1).normalised();
            items.push((format!("position {} moves {}", setup, m1.uci()), p1));
            for m2 in pick(&p1) {
                items.push((format!("position {} moves {} {}", setup, m1.uci(), m2.uci()), p1.apply(&m2).normalised()));
            }
        }
    }
    let n = items.len();
    let idx: Vec<usize> = (0..n * n).collect();
    let a = par_items(&idx, &|_, &k, acc| {
        let (x, y) = (&items[k / n], &items[k % n]);
        for with_search in [false, true] {
            let mut script = vec![x.0.clone()];
            if with_search {
                script.push("go depth 1".into());
                script.push("wait".into());
            }
            script.push("isready".into());
            script.push(y.0.clone());
            script.push("show".into());
            acc.evaluations += 1;
            let text = format!("{}{} ; {}", x.0, if with_search { " ; go depth 1 ; wait" } else { "" }, y.0);
            let key = format!("position-pair|{}", text);
            let replay = json::obj(vec![("kind", json::s("c12-pair")), ("first", json::s(x.0.clone())), ("second", json::s(y.0.clone())), ("search_between", J::Bool(with_search))]);
            match uci_seq(script) {
                Err(e) => acc.violation(key, format!("session died: {} [{}]", e, text), replay),
                Ok(t) => {
                    let cut = t.iter().position(|e| e == "readyok").map(|i| i + 1).unwrap_or(t.len());
                    let second = &t[cut..];
                    acc.transitions += 1;
                    if let Some(e) = second.iter().find(|e| e.starts_with("error:")) {
                        acc.violation(key, format!("the second position command was answered with {:?} [{}]", e, text), replay);
                        continue;
                    }
                    match second.last().map(|e| parse_show(e)) {
                        Some(Shown::Game { fen: f, hash, .. }) => {
                            let f4: String = f.split(' ').take(4).collect::<Vec<_>>().join(" ");
                            if f4 != y.1.fen4(false) {
                                acc.violation(key, format!("after the second position command the game shown is {:?}, expected {:?} [{}]", f4, y.1.fen4(false), text), replay);
                            } else if hash != format!("{:X}", keys().hash(&y.1)) {
                                acc.violation(key, format!("after the second position command the position is right but the hash shown is {} [{}]", hash, text), replay);
                            }
                        }
                        o => acc.violation(key, format!("after the second position command `show` printed {:?} [{}]", o, text), replay),
                    }
                }
            }
        }
    });
    let states = (n * n) as u64;
    acc.merge(a);
    acc.states += states;
    SpaceReport { name: format!("(d) ordered pairs of position commands over {} items (start position and Kiwipete, paths of length <= 2), with and without a depth-1 search in between", n), states, exhaustive: true, note: format!("[{:.1}s]", t0.elapsed().as_secs_f64()) }
}

pub fn run(tier: &str, seed: i64) -> Outcome {
    let off = seed.unsigned_abs();
    // (a)
    let spaces_a = core_spaces(tier, seed, true);
    let (mut acc, mut reports) = run_spaces(&spaces_a, &roundtrip_visit);
    acc.add("(a) legal moves round-tripped through text", acc.transitions);
    // (b)
    let strings = alphabet();
    let odd = odd_tokens();
    let offb = off_board_strings();
    let q = tier == "quick";
    let spaces_b = vec![
        Space::slice(Universe::UE { extras: 0, capturer_files: None, slider_only: false }, if q { 256 } else { 16 }, off),
        Space::slice(Universe::UEA, if q { 8 } else { 1 }, off),
        Space::all(Universe::UC { extras: 0 }),
        Space::slice(Universe::UC { extras: 1 }, if q { 512 } else { 32 }, off),
        Space::slice(Universe::UCK { extras: 0 }, if q { 8 } else { 1 }, off),
        Space::slice(Universe::UP, if q { 16 } else { 2 }, off),
        Space::slice(Universe::U2, if q { 64 } else { 8 }, off),
        Space::slice(Universe::U3, if q { 32768 } else { 2048 }, off),
        Space::bfs("startpos", ROOT_START, 1),
        Space::bfs("kiwipete", ROOT_KIWI, 1),
        Space::bfs("promo", ROOT_PROMO, if q { 1 } else { 2 }),
        Space::bfs("rights", ROOT_RIGHTS, 1),
    ];
    // collect the states first (cheap), then spread the expensive alphabet runs evenly over the threads
    let collected = std::sync::Mutex::new(Vec::<(Pos, String)>::new());
    let (acc_c, reports_b) = run_spaces(&spaces_b, &|ctx, _acc| {
        collected.lock().unwrap().push((*ctx.pos, ctx.space.to_string()));
    });
    let mut states = collected.into_inner().unwrap();
    states.sort_by(|a, b| (a.0.key(), &a.1).cmp(&(b.0.key(), &b.1)));
    let acc_b = par_items(&states, &|_, (p, _), acc| {
        acc.count("(b) states in which the complete 28672-string alphabet was tried");
        alphabet_in_state(p, &strings, acc);
        alphabet_in_state(p, &odd, acc);
        alphabet_in_state(p, &offb, acc);
        if acc.samples.is_empty() {
            acc.sample(json::obj(vec![("state", json::s(p.fen6(false))), ("strings", json::s("all 64x64 from/to pairs x {'',q,r,b,n,k,p} through `position fen <state> moves <s>`; `show`; `isready`")), ("legal", json::strs(&p.legal_uci_sorted()))]));
        }
    });
    // the `position startpos moves ...` branch: the start position itself and every position one ply from it
    let mut paths: Vec<Vec<String>> = vec![vec![]];
    for m in Pos::startpos().legal() {
        paths.push(vec![m.uci()]);
    }
    let acc_sp = par_items(&paths, &|_, path, acc| {
        acc.count("(b) states given as `position startpos moves ...` with the complete alphabet");
        alphabet_after_startpos(path, &strings, acc);
    });
    acc.merge(acc_sp);
    let acc_s = par_items(&states, &|i, (p, _), acc| {
        if i % 4 == 0 {
            acc.count("(c) states with good/bad sequences");
            sequences_in_state(p, acc);
        }
    });
    let rep_d = command_pairs(&mut acc);
    acc.states += acc_c.states;
    acc.merge(acc_b);
    acc.merge(acc_s);
    for mut r in reports_b {
        r.name = format!("(b) {}", r.name);
        reports.push(r);
    }
    reports.push(rep_d);
    let mut out = Outcome::new(acc, reports, "(a) every legal move of every state of the core spaces: text shape, agreement with the model's text, pairwise distinct, from_uci_notation(text) == move. (b) in every listed state the complete alphabet of 64x64x7 move-shaped strings goes through the real `position fen .. moves s` + `show` (uci_talk on scripted stdin): accepted <=> legal, shown position == model successor, rejected => error line and the position before or no game. (c) bad-after-good and good-after-bad command sequences. (d) every ordered pair of position commands over a set of games from two starts, with and without a search in between: the second is honoured as if it were the first. (e) 29 strings that are not move-shaped (null move, other notations, truncated, upper-case, multi-byte) in every state of (b): refused. (f) every string made of one real square and one square just off the board (file characters '`'..'p', rank digits 0 and 9), in either order, in every state of (b): refused");
    out.traces_validated = out.acc.transitions;
    out.assumptions = vec!["the alphabet is the quantifier's: two squares plus an optional lower-case letter, plus 29 strings that are not move-shaped at all; an upper-case promotion letter and characters after a complete promotion text are accepted by the engine's reader by design and are outside the quantifier".into(), "(b) runs in a fixed-stride subset of the en-passant, castling, promotion and king universes plus all positions one ply from four roots (strides in the space names)".into()];
    out
}

pub fn replay(j: &J) -> Result<Acc, String> {
    if j.get("kind").and_then(|x| x.as_str()) == Some("c12-pair") {
        let mut acc = Acc::new();
        let _ = command_pairs(&mut acc);
        return Ok(acc);
    }
    let fen = j.get("fen").and_then(|x| x.as_str()).ok_or("fen")?;
    let mv = j.get("moves").and_then(|x| x.as_str()).ok_or("moves")?;
    let p = parse_fen_strict(fen)?.pos.normalised();
    let mut acc = Acc::new();
    let parts: Vec<&str> = mv.split_whitespace().collect();
    if parts.len() == 1 {
        alphabet_in_state(&p, &[mv.to_string()], &mut acc);
    } else {
        sequences_in_state(&p, &mut acc);
    }
    Ok(acc)
}
