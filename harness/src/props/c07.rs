//! C07: a stop request at any moment still yields a legal move, promptly.
//! E4: for each (root, depth limit), a free run counts the node-entry polls P;
//! then one run per N in 0..=P flips the flag at exactly the N-th poll.
#![allow(dead_code)]

use crate::bind::*;
use crate::explore::*;
use crate::json::{self, J};
use crate::props::core::*;
use crate::props::e3;
use crate::refchess::*;
use crate::report::Outcome;
use crate::srch::*;
use crate::universe::Universe;

fn replay_json(spec: &RootSpec, d: u8, n: u64, warm: bool) -> J {
    json::obj(vec![("kind", json::s("c07-stop")), ("fen", json::s(spec.fen.clone())), ("history", json::s(spec.history.join(" "))), ("depth", json::i(d)), ("stop_at_poll", json::i(n)), ("warm_table", J::Bool(warm))])
}

/// all stop points of one (root, depth, table state)
pub fn stop_points(spec: &RootSpec, d: u8, warm: bool, only_n: Option<u64>, acc: &mut Acc) {
    let Ok((game, pos)) = spec.build() else {
        acc.errors.push(format!("cannot build {}", spec.text()));
        return;
    };
    let legal = pos.legal_uci_sorted();
    let make_table = || {
        let mut t = new_table();
        if warm && d > 1 {
            let _ = run_search(&game, &mut t, &SearchCfg::depth(d - 1));
        }
        t
    };
    // free run
    let mut t = make_table();
    let free = run_search(&game, &mut t, &SearchCfg::depth(d));
    if free.result.is_err() {
        // a crash of an unstopped search is C06/C08's finding; nothing to enumerate here
        acc.count("roots whose unstopped search crashed (reported by C06/C08)");
        return;
    }
    let p = free.polls;
    acc.states += 1;
    acc.max("polls in one free run", p);
    // u64::MAX stands for "the stop is already in when the search function is entered" (go overtaken by stop; a zero budget)
    let range: Vec<u64> = match only_n {
        Some(n) => vec![n],
        None => std::iter::once(u64::MAX).chain(0..=p).collect(),
    };
    for n in range {
        let mut t = make_table();
        let mut cfg = SearchCfg::depth(d);
        cfg.stop_at = n;
        let run = if n == u64::MAX { run_search_flag(&game, &mut t, &cfg, false) } else { run_search(&game, &mut t, &cfg) };
        acc.evaluations += 1;
        acc.transitions += 1;
        let key_class = format!("{}|d{}|{}", spec.text(), d, if warm { "warm" } else { "fresh" });
        match &run.result {
            Err(pn) => acc.violation(format!("c07-panic|{}|{}", key_class, n), format!("stopped search crashed: {} [{} depth {} stop at poll {}]", pn, spec.text(), d, n), replay_json(spec, d, n, warm)),
            Ok(None) => {
                if !legal.is_empty() {
                    acc.outcome("stopped: no move although legal moves exist");
                    // one finding per (root, depth, table): the smallest N is the witness
                    acc.violation(format!("c07-none|{}", key_class), format!("stop at poll {} (18446744073709551615 = before the search started) of {} => no move announced although {} has legal moves [{} depth {}{}]", n, p, pos.fen4(false), spec.text(), d, if warm { ", table warmed by a depth-1-less search" } else { "" }), replay_json(spec, d, n, warm));
                } else {
                    acc.outcome("stopped: no move, none exists");
                }
            }
            Ok(Some(m)) => {
                if !legal.contains(m) {
                    acc.violation(format!("c07-illegal|{}|{}", key_class, n), format!("stop at poll {} => announced illegal move {} [{} depth {}]", n, m, spec.text(), d), replay_json(spec, d, n, warm));
                } else {
                    acc.outcome(if run.stopped { "stopped: legal move" } else { "not reached: legal move" });
                }
            }
        }
        // "unwinds without expanding further nodes": the node-entry poll is the hook's only view of expansion, so a
        // search that walks on without polling (an iteration whose nodes are not polled) would escape the count above.
        // What it cannot hide: an iteration reported as completed after the stop was in, and - when the stop was in
        // before the search started on an empty table - anything cached at all.
        let lines_after_stop = if n == u64::MAX { info_depths(&run.transcript).len() } else { run.iter_marks.iter().filter(|&&m| m > n).count() };
        // (a cached root entry or a single legal reply is reported without a node being expanded: not judged)
        if (run.stopped || n == u64::MAX) && lines_after_stop > 0 && !warm && legal.len() >= 2 {
            acc.violation(format!("c07-iteration-after-stop|{}|{}", key_class, n), format!("the stop was in at poll {} (18446744073709551615 = before the search started), yet {} iteration(s) were completed and reported afterwards [{} depth {}]", n, lines_after_stop, spec.text(), d), replay_json(spec, d, n, warm));
        }
        if n == u64::MAX && !warm && !t.is_empty() {
            acc.violation(format!("c07-cached-after-stop|{}", key_class), format!("the stop was in before the search started, yet {} table entr(y/ies) were written [{} depth {}]", t.len(), spec.text(), d), replay_json(spec, d, n, warm));
        }
        if run.polls_after_stop != 0 {
            acc.violation(format!("c07-late|{}|{}", key_class, n), format!("after the stop at poll {} the search entered {} further node(s) [{} depth {}]", n, run.polls_after_stop, spec.text(), d), replay_json(spec, d, n, warm));
        }
        if let Some(ch) = &run.game_changed {
            acc.violation(format!("c07-game|{}|{}", key_class, n), format!("caller's game changed by a stopped search: {} [{} depth {} stop {}]", ch, spec.text(), d, n), replay_json(spec, d, n, warm));
        }
    }
}

/// The same property at the interface: "a thinking time too short to finish depth 1" and "`go` immediately followed by
/// `stop`" as a GUI produces them. Every family root x every `go` line of a list of starved time controls (move times
/// and clocks whose budget works out to 0 or 1 ms, with and without increments, either colour's clock alone, partial
/// lists) goes through the real command loop with its real timer thread (`go ..; wait`), and every unlimited or deep
/// search is stopped at once (`go ..; stop`). Whatever the timing, the one `bestmove` must name a legal move (none
/// only without legal moves): the verdict does not depend on how far the search got.
pub fn uci_starved(acc: &mut Acc) -> SpaceReport {
    use crate::props::c12::uci_seq;
    let t0 = std::time::Instant::now();
    let mut roots: Vec<String> = e3::family_roots().iter().map(|x| x.1.to_string()).collect();
    roots.push(e3::SINGLE_MOVE.into());
    roots.push(e3::MATED.into());
    roots.push(e3::STALEMATED.into());
    roots.push(e3::OTHER_GAME.into());
    let timed = [
        "go movetime 0", "go movetime 1", "go movetime 5", "go movetime 6", "go wtime 0 btime 0", "go wtime 1 btime 1", "go wtime 150 btime 150", "go wtime 1000 btime 1000 winc 0 binc 0",
        "go wtime 5000 btime 5000", "go wtime 7500 btime 7500", "go wtime 7750 btime 7750", "go wtime 2500 btime 2500 winc 100 binc 100", "go wtime 100 btime 100 winc 5000 binc 5000",
        "go wtime 5000", "go btime 5000", "go wtime 5000 btime 5000 movestogo 1", "go wtime 5000 btime 5000 movestogo 40", "go wtime 60000 btime 60000 winc 1000 binc 1000 depth 1", "go movetime 0 depth 3",
    ];
    let stopped = ["go infinite", "go depth 64", "go", "go movetime 3600000", "go wtime 3600000 btime 3600000"];
    let mut cases: Vec<(String, String, &str)> = vec![];
    for r in &roots {
        for g in timed {
            cases.push((r.clone(), g.to_string(), "wait"));
        }
        for g in stopped {
            cases.push((r.clone(), g.to_string(), "stop"));
        }
    }
    let a = par_items(&cases, &|_, (root, go, end), acc| {
        let Ok(parsed) = parse_fen_strict(root) else { return };
        let pos = parsed.pos.normalised();
        let legal = pos.legal_uci_sorted();
        // a `go` that names only the other side's clock sets no budget: nothing would end it, so it is stopped instead
        let own_clock = if pos.white { go.contains("wtime") } else { go.contains("btime") };
        let end = if *end == "wait" && !own_clock && !go.contains("movetime") && !go.contains("depth") { "stop" } else { *end };
        acc.states += 1;
        acc.evaluations += 1;
        let text = format!("position fen {} ; {} ; {}", root, go, end);
        let replay = json::obj(vec![("kind", json::s("c07-uci")), ("fen", json::s(root.clone())), ("go", json::s(go.clone())), ("end", json::s(end))]);
        match uci_seq(vec![format!("position fen {}", root), go.clone(), end.to_string()]) {
            Err(e) => acc.violation(format!("c07-uci-died|{}", text), format!("session died: {} [{}]", e, text), replay),
            Ok(t) => {
                acc.transitions += 1;
                let best: Vec<&String> = t.iter().filter(|l| l.starts_with("bestmove")).collect();
                if best.len() != 1 {
                    acc.violation(format!("c07-uci-count|{}", text), format!("{} bestmove lines [{}]", best.len(), text), replay);
                    return;
                }
                let m = best[0].split_whitespace().nth(1).unwrap_or("");
                if legal.is_empty() {
                    acc.outcome("interface: no move, none exists");
                } else if m == "none" || m.is_empty() {
                    acc.outcome("interface: no move although legal moves exist");
                    acc.violation(format!("c07-uci-none|{}", text), format!("`{}` was answered with `{}` although {} has {} legal moves [{}]", go, best[0], pos.fen4(false), legal.len(), text), replay);
                } else if !legal.iter().any(|x| x == m) {
                    acc.violation(format!("c07-uci-illegal|{}", text), format!("`{}` was answered with the illegal move {} [{}]", go, m, text), replay);
                } else {
                    acc.outcome("interface: legal move");
                }
            }
        }
    });
    let n = a.states;
    acc.merge(a);
    SpaceReport { name: format!("interface: {} roots x {} starved time controls (go ..; wait) and {} searches stopped at once (go ..; stop), real command loop and timer thread", roots.len(), timed.len(), stopped.len()), states: n, exhaustive: true, note: format!("[{:.1}s]", t0.elapsed().as_secs_f64()) }
}

pub fn run(tier: &str, seed: i64) -> Outcome {
    let q = tier == "quick";
    let off = seed.unsigned_abs();
    let mut cases: Vec<(RootSpec, u8, bool)> = vec![];
    // family roots, fresh and warm tables
    for (_, root) in e3::family_roots() {
        for spec in e3::family(root) {
            for d in 1..=(if q { 3 } else { 4 }) {
                cases.push((spec.clone(), d, false));
                if d > 1 {
                    cases.push((spec.clone(), d, true));
                }
            }
        }
    }
    // shuffled histories: one root for every possible repetition move (the move the root filter drops)
    for (name, root) in e3::family_roots() {
        let max_a = if q { 1 } else { 3 };
        if q && (name == "tactical" || name == "castling-ep") {
            continue;
        }
        for spec in e3::all_shuffles(root, max_a) {
            for d in 1..=2 {
                cases.push((spec.clone(), d, false));
            }
            cases.push((spec.clone(), 2, true));
        }
    }
    // move counters of the FEN and long reversible histories (the fifty-move boundary by text and by play)
    for spec in e3::counter_roots() {
        let keep = spec.history.is_empty() && (spec.fen.ends_with(" 99 80") || spec.fen.ends_with(" 100 80") || spec.fen.ends_with(" 150 200")) || [99usize, 100, 101, 200].contains(&spec.history.len());
        if keep {
            cases.push((spec.clone(), 1, false));
            cases.push((spec.clone(), 2, false));
        }
    }
    // small positions and positions near the middlegame roots
    let collected = std::sync::Mutex::new(Vec::<(Pos, String)>::new());
    let spaces = vec![
        Space::slice(Universe::U2, if q { 16 } else { 2 }, off),
        Space::slice(Universe::U3, if q { 20_000 } else { 1_000 }, off),
        Space::slice(Universe::UC { extras: 1 }, if q { 1_000 } else { 50 }, off),
        Space::bfs("startpos", ROOT_START, if q { 1 } else { 2 }),
        Space::bfs("kiwipete", ROOT_KIWI, 1),
        Space::bfs("promo", ROOT_PROMO, 1),
    ];
    let (_, mut reports) = run_spaces(&spaces, &|ctx, _| collected.lock().unwrap().push((*ctx.pos, ctx.space.to_string())));
    let mut roots = collected.into_inner().unwrap();
    roots.sort_by_key(|(p, _)| p.key());
    for (p, space) in &roots {
        let dmax = if space.contains("kiwipete") || space.contains("promo") { 2 } else { 3 };
        for d in 1..=dmax {
            cases.push((RootSpec::fen(&p.fen6(false)), d, false));
        }
    }
    cases.sort();
    cases.dedup();
    let t0 = std::time::Instant::now();
    let acc = par_items(&cases, &|_, (spec, d, warm), acc| {
        stop_points(spec, *d, *warm, None, acc);
        if acc.samples.len() < 2 {
            acc.sample(json::obj(vec![("root", json::s(spec.text())), ("depth", json::i(*d)), ("warm_table", J::Bool(*warm)), ("stop_points", json::s("every poll index 0..=P of the free run"))]));
        }
    });
    reports.push(SpaceReport { name: format!("E4: {} (root, depth, table) cases, every stop point 0..=P each", cases.len()), states: acc.states, exhaustive: true, note: format!("[{:.1}s]", t0.elapsed().as_secs_f64()) });
    // the fallback path on its own (stop before the first node: the answer comes from the fallback alone), over large
    // universes: every geometry of checks, pins, double attacks and castling decides whether that answer is legal
    let t1 = std::time::Instant::now();
    let fb_spaces = vec![
        Space::all(Universe::U2),
        Space::slice(Universe::U3, if q { 16 } else { 2 }, off),
        Space::slice(Universe::UC { extras: 1 }, if q { 4 } else { 1 }, off),
        Space::slice(Universe::UPIN, if q { 8 } else { 1 }, off),
        Space::slice(Universe::UDBL, if q { 8 } else { 1 }, off),
        Space::slice(Universe::UCK { extras: 1 }, if q { 16 } else { 2 }, off),
        Space::all(Universe::UE { extras: 0, capturer_files: None, slider_only: false }),
        Space::all(Universe::UP),
    ];
    let (fb, fb_reports) = run_spaces(&fb_spaces, &|ctx, acc| {
        let spec = RootSpec::fen(&ctx.pos.fen6(false));
        let before = acc.states;
        stop_points(&spec, 1, false, Some(0), acc);
        acc.states = before; // run_spaces counts the state itself
    });
    let fb_states = fb.states;
    let mut acc = acc;
    acc.merge(fb);
    for r in fb_reports {
        reports.push(SpaceReport { name: format!("fallback path (stop at poll 0, depth 1): {}", r.name), states: r.states, exhaustive: true, note: r.note });
    }
    let _ = (t1, fb_states);
    let r = uci_starved(&mut acc);
    reports.push(r);
    let mut out = Outcome::new(acc, reports, "for every (root, depth limit, fresh/warm table): the free run's poll count P is measured, then the search is re-run once for every N in 0..=P with the stop flag flipped inside the N-th node-entry poll (hook H2); each run must return a model-legal move when one exists, enter no further node after the flip, and leave the caller's game unchanged");
    out.traces_validated = out.acc.evaluations;
    out.assumptions = vec!["'promptly' is decided in virtual time: the number of node entries after the flip must be zero; wall-clock latency is not modelled".into(), "depth limits <= 3 (4 thorough); single stop per search (the flag never goes back up within one search)".into()];
    out
}

pub fn replay(j: &J) -> Result<Acc, String> {
    if j.get("kind").and_then(|x| x.as_str()) == Some("c07-uci") {
        let mut acc = Acc::new();
        let _ = uci_starved(&mut acc);
        return Ok(acc);
    }
    let spec = RootSpec::with(j.get("fen").and_then(|x| x.as_str()).ok_or("fen")?, j.get("history").and_then(|x| x.as_str()).unwrap_or(""));
    let d = j.get("depth").and_then(|x| x.as_i()).ok_or("depth")? as u8;
    let n = j.get("stop_at_poll").and_then(|x| x.as_i()).ok_or("stop_at_poll")? as u64;
    let warm = j.get("warm_table").and_then(|x| x.as_bool()).unwrap_or(false);
    let mut acc = Acc::new();
    stop_points(&spec, d, warm, Some(n), &mut acc);
    Ok(acc)
}
