//! C07: a stop request at any moment still yields a legal move, promptly.
//! E4: for each (root, depth limit), a free run counts the node-entry polls P;
//! then one run per N in 0..=P flips the flag at exactly the N-th poll.
#![allow(dead_code)]

use crate::bind::*;
use crate::explore::*;
use crate::json::{self, J};
use crate::props::core::*;
use crate::props::e3;
use crate::refchess::*;
use crate::report::Outcome;
use crate::srch::*;
use crate::universe::Universe;

fn replay_json(spec: &RootSpec, d: u8, n: u64, warm: bool) -> J {
    json::obj(vec![("kind", json::s("c07-stop")), ("fen", json::s(spec.fen.clone())), ("history", json::s(spec.history.join(" "))), ("depth", json::i(d)), ("stop_at_poll", json::i(n)), ("warm_table", J::Bool(warm))])
}

/// all stop points of one (root, depth, table state)
pub fn stop_points(spec: &RootSpec, d: u8, warm: bool, only_n: Option<u64>, acc: &mut Acc) {
    let Ok((game, pos)) = spec.build() else {
        acc.errors.push(format!("cannot build {}", spec.text()));
        return;
    };
    let legal = pos.legal_uci_sorted();
    let make_table = || {
        let mut t = new_table();
        if warm && d > 1 {
            let _ = run_search(&game, &mut t, &SearchCfg::depth(d - 1));
        }
        t
    };
    // free run
    let mut t = make_table();
    let free = run_search(&game, &mut t, &SearchCfg::depth(d));
    if free.result.is_err() {
        // a crash of an unstopped search is C06/C08's finding; nothing to enumerate here
        acc.count("roots whose unstopped search crashed (reported by C06/C08)");
        return;
    }
    let p = free.polls;
    acc.states += 1;
    acc.max("polls in one free run", p);
    // u64::MAX stands for "the stop is already in when the search function is entered" (go overtaken by stop; a zero budget)
    let range: Vec<u64> = match only_n {
        Some(n) => vec![n],
        None => std::iter::once(u64::MAX).chain(0..=p).collect(),
    };
    for n in range {
        let mut t = make_table();
        let mut cfg = SearchCfg::depth(d);
        cfg.stop_at = n;
        let run = if n == u64::MAX { run_search_flag(&game, &mut t, &cfg, false) } else { run_search(&game, &mut t, &cfg) };
        acc.evaluations += 1;
        acc.transitions += 1;
        let key_class = format!("{}|d{}|{}", spec.text(), d, if warm { "warm" } else { "fresh" });
        match &run.result {
            Err(pn) => acc.violation(format!("c07-panic|{}|{}", key_class, n), format!("stopped search crashed: {} [{} depth {} stop at poll {}]", pn, spec.text(), d, n), replay_json(spec, d, n, warm)),
            Ok(None) => {
                if !legal.is_empty() {
                    acc.outcome("stopped: no move although legal moves exist");
                    // one finding per (root, depth, table): the smallest N is the witness
                    acc.violation(format!("c07-none|{}", key_class), format!("stop at poll {} (18446744073709551615 = before the search started) of {} => no move announced although {} has legal moves [{} depth {}{}]", n, p, pos.fen4(false), spec.text(), d, if warm { ", table warmed by a depth-1-less search" } else { "" }), replay_json(spec, d, n, warm));
                } else {
                    acc.outcome("stopped: no move, none exists");
                }
            }
            Ok(Some(m)) => {
                if !legal.contains(m) {
                    acc.violation(format!("c07-illegal|{}|{}", key_class, n), format!("stop at poll {} => announced illegal move {} [{} depth {}]", n, m, spec.text(), d), replay_json(spec, d, n, warm));
                } else {
                    acc.outcome(if run.stopped { "stopped: legal move" } else { "not reached: legal move" });
                }
            }
        }
        if run.polls_after_stop != 0 {
            acc.violation(format!("c07-late|{}|{}", key_class, n), format!("after the stop at poll {} the search entered {} further node(s) [{} depth {}]", n, run.polls_after_stop, spec.text(), d), replay_json(spec, d, n, warm));
        }
        if let Some(ch) = &run.game_changed {
            acc.violation(format!("c07-game|{}|{}", key_class, n), format!("caller's game changed by a stopped search: {} [{} depth {} stop {}]", ch, spec.text(), d, n), replay_json(spec, d, n, warm));
        }
    }
}

pub fn run(tier: &str, seed: i64) -> Outcome {
    let q = tier == "quick";
    let off = seed.unsigned_abs();
    let mut cases: Vec<(RootSpec, u8, bool)> = vec![];
    // family roots, fresh and warm tables
    for (_, root) in e3::family_roots() {
        for spec in e3::family(root) {
            for d in 1..=(if q { 3 } else { 4 }) {
                cases.push((spec.clone(), d, false));
                if d > 1 {
                    cases.push((spec.clone(), d, true));
                }
            }
        }
    }
    // shuffled histories: one root for every possible repetition move (the move the root filter drops)
    for (name, root) in e3::family_roots() {
        let max_a = if q { 1 } else { 3 };
        if q && (name == "tactical" || name == "castling-ep") {
            continue;
        }
        for spec in e3::all_shuffles(root, max_a) {
            for d in 1..=2 {
                cases.push((spec.clone(), d, false));
            }
            cases.push((spec.clone(), 2, true));
        }
    }
    // small positions and positions near the middlegame roots
    let collected = std::sync::Mutex::new(Vec::<(Pos, String)>::new());
    let spaces = vec![
        Space::slice(Universe::U2, if q { 16 } else { 2 }, off),
        Space::slice(Universe::U3, if q { 20_000 } else { 1_000 }, off),
        Space::slice(Universe::UC { extras: 1 }, if q { 1_000 } else { 50 }, off),
        Space::bfs("startpos", ROOT_START, if q { 1 } else { 2 }),
        Space::bfs("kiwipete", ROOT_KIWI, 1),
        Space::bfs("promo", ROOT_PROMO, 1),
    ];
    let (_, mut reports) = run_spaces(&spaces, &|ctx, _| collected.lock().unwrap().push((*ctx.pos, ctx.space.to_string())));
    let mut roots = collected.into_inner().unwrap();
    roots.sort_by_key(|(p, _)| p.key());
    for (p, space) in &roots {
        let dmax = if space.contains("kiwipete") || space.contains("promo") { 2 } else { 3 };
        for d in 1..=dmax {
            cases.push((RootSpec::fen(&p.fen6(false)), d, false));
        }
    }
    cases.sort();
    cases.dedup();
    let t0 = std::time::Instant::now();
    let acc = par_items(&cases, &|_, (spec, d, warm), acc| {
        stop_points(spec, *d, *warm, None, acc);
        if acc.samples.len() < 2 {
            acc.sample(json::obj(vec![("root", json::s(spec.text())), ("depth", json::i(*d)), ("warm_table", J::Bool(*warm)), ("stop_points", json::s("every poll index 0..=P of the free run"))]));
        }
    });
    reports.push(SpaceReport { name: format!("E4: {} (root, depth, table) cases, every stop point 0..=P each", cases.len()), states: acc.states, exhaustive: true, note: format!("[{:.1}s]", t0.elapsed().as_secs_f64()) });
    // the fallback path on its own (stop before the first node: the answer comes from the fallback alone), over large
    // universes: every geometry of checks, pins, double attacks and castling decides whether that answer is legal
    let t1 = std::time::Instant::now();
    let fb_spaces = vec![
        Space::all(Universe::U2),
        Space::slice(Universe::U3, if q { 16 } else { 2 }, off),
        Space::slice(Universe::UC { extras: 1 }, if q { 4 } else { 1 }, off),
        Space::slice(Universe::UPIN, if q { 8 } else { 1 }, off),
        Space::slice(Universe::UDBL, if q { 8 } else { 1 }, off),
        Space::slice(Universe::UCK { extras: 1 }, if q { 16 } else { 2 }, off),
        Space::all(Universe::UE { extras: 0, capturer_files: None, slider_only: false }),
        Space::all(Universe::UP),
    ];
    let (fb, fb_reports) = run_spaces(&fb_spaces, &|ctx, acc| {
        let spec = RootSpec::fen(&ctx.pos.fen6(false));
        let before = acc.states;
        stop_points(&spec, 1, false, Some(0), acc);
        acc.states = before; // run_spaces counts the state itself
    });
    let fb_states = fb.states;
    let mut acc = acc;
    acc.merge(fb);
    for r in fb_reports {
        reports.push(SpaceReport { name: format!("fallback path (stop at poll 0, depth 1): {}", r.name), states: r.states, exhaustive: true, note: r.note });
    }
    let _ = (t1, fb_states);
    let mut out = Outcome::new(acc, reports, "for every (root, depth limit, fresh/warm table): the free run's poll count P is measured, then the search is re-run once for every N in 0..=P with the stop flag flipped inside the N-th node-entry poll (hook H2); each run must return a model-legal move when one exists, enter no further node after the flip, and leave the caller's game unchanged");
    out.traces_validated = out.acc.evaluations;
    out.assumptions = vec!["'promptly' is decided in virtual time: the number of node entries after the flip must be zero; wall-clock latency is not modelled".into(), "depth limits <= 3 (4 thorough); single stop per search (the flag never goes back up within one search)".into()];
    out
}

pub fn replay(j: &J) -> Result<Acc, String> {
    let spec = RootSpec::with(j.get("fen").and_then(|x| x.as_str()).ok_or("fen")?, j.get("history").and_then(|x| x.as_str()).unwrap_or(""));
    let d = j.get("depth").and_then(|x| x.as_i()).ok_or("depth")? as u8;
    let n = j.get("stop_at_poll").and_then(|x| x.as_i()).ok_or("stop_at_poll")? as u64;
    let warm = j.get("warm_table").and_then(|x| x.as_bool()).unwrap_or(false);
    let mut acc = Acc::new();
    stop_points(&spec, d, warm, Some(n), &mut acc);
    Ok(acc)
}
