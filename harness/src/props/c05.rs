//! C05: different positions get different hashes.
//! (a) global collision table over every state visited; (b) every
//! single-feature variant of a base state hashes differently; (c) the key
//! table itself has no two equal keys within a feature.
#![allow(dead_code)]

use crate::bind::*;
use crate::chess::Game;
use crate::explore::*;
use crate::json::{self, J};
use crate::props::core::*;
use crate::refchess::*;
use crate::report::Outcome;
use crate::universe::Universe;

fn hash_of_fen(fen: &str) -> Result<Option<u64>, String> {
    match guarded(|| Game::new(fen)) {
        Ok(Ok(g)) => Ok(Some(g.hash())),
        Ok(Err(_)) => Ok(None),
        Err(p) => Err(p),
    }
}

fn variants_visit(ctx: &StateCtx, acc: &mut Acc, base_hash: u64) {
    let p = *ctx.pos;
    let mut try_variant = |acc: &mut Acc, what: String, fen: String| {
        acc.evaluations += 1;
        match hash_of_fen(&fen) {
            Ok(Some(h)) => {
                acc.transitions += 1;
                if h == base_hash {
                    let key = format!("variant|{}|{}", p.fen4(false), what);
                    acc.violation(key, format!("changing {} does not change the hash: {:?} and {:?} both hash to {:X}", what, p.fen4(false), fen, h), json::obj(vec![("kind", json::s("c05-variant")), ("base", json::s(p.fen6(false))), ("variant", json::s(fen.clone())), ("feature", json::s(what.clone()))]));
                }
            }
            Ok(None) => acc.count("variants the reader refuses (skipped)"),
            Err(pn) => {
                // a crash of the reader is C17's business; count it here
                if acc.notes.len() < 3 {
                    acc.notes.push(format!("reader panic on {:?}: {}", fen, pn));
                }
                acc.count("variants on which the reader panics (skipped; C17)")
            }
        }
    };
    // side
    let mut q = p;
    q.white = !p.white;
    q.ep = None;
    if p.ep.is_none() {
        try_variant(acc, "the side to move".into(), q.fen6(false));
    }
    // each castling right
    for bit in 0..4 {
        let mut q = p;
        q.rights ^= 1 << bit;
        try_variant(acc, format!("castling right {}", ["K", "Q", "k", "q"][bit]), q.fen6(false));
    }
    // en-passant nibble: all 9 values must hash pairwise differently
    let mut ep_hashes: Vec<(String, u64)> = vec![];
    for f in 0..9u8 {
        let epf = if f == 8 { "-".to_string() } else { format!("{}{}", (b'a' + f) as char, if p.white { '6' } else { '3' }) };
        let fen = format!("{} {} {} {} 0 1", p.placement_field(), if p.white { 'w' } else { 'b' }, p.rights_field(), epf);
        if let Ok(Some(h)) = hash_of_fen(&fen) {
            ep_hashes.push((epf, h));
        }
        acc.evaluations += 1;
    }
    for i in 0..ep_hashes.len() {
        for j in i + 1..ep_hashes.len() {
            acc.transitions += 1;
            if ep_hashes[i].1 == ep_hashes[j].1 {
                let what = format!("the en-passant file ({} vs {})", ep_hashes[i].0, ep_hashes[j].0);
                acc.violation(format!("variant|{}|{}", p.fen4(false), what), format!("changing {} does not change the hash of {:?} ({:X})", what, p.fen4(false), ep_hashes[i].1), json::obj(vec![("kind", json::s("c05-variant")), ("base", json::s(p.fen6(false))), ("feature", json::s(what.clone()))]));
            }
        }
    }
    // every square to every content
    for s in 0..64u8 {
        for c in 0..=12u8 {
            if c == p.b[s as usize] {
                continue;
            }
            // a position has exactly one king per side: adding or removing a king is not a variation of a position
            if c == WK || c == BK || p.b[s as usize] == WK || p.b[s as usize] == BK {
                continue;
            }
            let mut q = p;
            q.b[s as usize] = c;
            // keep the text's ep field exactly as in the base so that only one feature changes
            let fen = format!("{} {} {} {} 0 1", q.placement_field(), if p.white { 'w' } else { 'b' }, p.rights_field(), p.ep_field(false));
            try_variant(acc, format!("the content of {} ({} -> {})", sq_name(s), if p.b[s as usize] == 0 { '.' } else { piece_letter(p.b[s as usize]) }, if c == 0 { '.' } else { piece_letter(c) }), fen);
        }
    }
}

/// The same single-feature rule for positions REACHED by a move: the hash the game carries after push(m) must differ
/// from the hash of every state-feature variant (side, each right, en-passant file) of the successor loaded from text.
/// (A hash that keeps a stale state key collides with exactly such a variant.)
fn reached_variants(ctx: &StateCtx, acc: &mut Acc) {
    let Ok(g) = load(ctx.pos) else { return };
    for m in ctx.pos.legal() {
        let mut h = g.clone();
        let Some(em) = find_move(&mut h, &m.uci()) else { continue };
        if guarded(|| h.push(em)).is_err() {
            continue;
        }
        let reached = h.hash();
        let succ = ctx.pos.apply(&m).normalised();
        let mut variants: Vec<(String, String)> = vec![];
        for bit in 0..4 {
            let mut q = succ;
            q.rights ^= 1 << bit;
            variants.push((format!("castling right {}", ["K", "Q", "k", "q"][bit]), q.fen6(false)));
        }
        for f in 0..9u8 {
            if f == succ.engine_ep_file() {
                continue;
            }
            let epf = if f == 8 { "-".to_string() } else { format!("{}{}", (b'a' + f) as char, if succ.white { '6' } else { '3' }) };
            variants.push((format!("en-passant file -> {}", epf), format!("{} {} {} {} 0 1", succ.placement_field(), if succ.white { 'w' } else { 'b' }, succ.rights_field(), epf)));
        }
        {
            let mut q = succ;
            q.white = !succ.white;
            q.ep = None;
            if succ.ep.is_none() {
                variants.push(("the side to move".into(), q.fen6(false)));
            }
        }
        for (what, fen) in variants {
            acc.evaluations += 1;
            if let Ok(Some(vh)) = hash_of_fen(&fen) {
                acc.transitions += 1;
                if vh == reached {
                    acc.violation(
                        format!("reached-variant|{}|{}|{}", ctx.pos.fen4(false), m.uci(), what),
                        format!("after {} from {:?} the game's hash {:X} equals the hash of the position that differs from it in {} ({:?})", m.uci(), ctx.pos.fen4(false), reached, what, fen),
                        json::obj(vec![("kind", json::s("c05-reached")), ("fen", json::s(ctx.pos.fen6(false))), ("move", json::s(m.uci())), ("variant", json::s(fen.clone()))]),
                    );
                }
            }
        }
    }
}

/// provenance of the table entries that were obtained by playing a move (successor key -> "fen moves m")
static REACHED: std::sync::Mutex<Vec<([u8; 34], String)>> = std::sync::Mutex::new(Vec::new());

fn hash_by_route(route: &str) -> Result<Option<u64>, String> {
    // route is either a FEN (4 fields) or "<fen4> moves <m>"
    match route.split_once(" moves ") {
        None => hash_of_fen(&format!("{} 0 1", route)),
        Some((fen, m)) => {
            let pos = parse_fen_strict(&format!("{} 0 1", fen))?.pos.normalised();
            let mut g = load(&pos)?;
            let Some(em) = find_move(&mut g, m) else { return Ok(None) };
            guarded(|| {
                g.push(em);
                g.hash()
            })
            .map(Some)
        }
    }
}

pub fn run(tier: &str, seed: i64) -> Outcome {
    let off = seed.unsigned_abs();
    let spaces = core_spaces(tier, seed, false);
    let (u3_stride, bfs_stride, uc_stride) = if tier == "quick" { (64u64, 16u64, 4u64) } else { (4, 2, 1) };
    let visit = move |ctx: &StateCtx, acc: &mut Acc| {
        let g = match load(ctx.pos) {
            Ok(g) => g,
            Err(e) => {
                acc.violation(format!("load|{}", ctx.pos.fen4(false)), e, ctx.describe());
                return;
            }
        };
        let h = g.hash();
        acc.pairs.push((h, ctx.pos.key()));
        acc.evaluations += 1;
        // the hashes CARRIED through the moves with board surgery of their own (castling, en passant, promotion) enter
        // the same table under the successor's key: a make/unmake pair that is wrong but symmetric collides with the
        // text-loaded twin of the position it pretends to have reached
        let specials: Vec<Mv> = ctx.pos.legal().into_iter().filter(|m| matches!(m.kind, MvKind::CastleShort | MvKind::CastleLong | MvKind::EnPassant | MvKind::Promotion)).collect();
        if !specials.is_empty() {
            let mut g2 = g.clone();
            for m in specials {
                let t = m.uci();
                let Some(em) = find_move(&mut g2, &t) else { continue };
                if let Ok(hh) = guarded(|| {
                    g2.push(em);
                    let x = g2.hash();
                    g2.pop(em);
                    x
                }) {
                    let k = ctx.pos.apply(&m).normalised().key();
                    acc.pairs.push((hh, k));
                    acc.transitions += 1;
                    acc.count("hashes carried through castling / en passant / promotion entered into the table");
                    if let Ok(mut r) = REACHED.lock() {
                        if r.len() < 20_000_000 {
                            r.push((k, format!("{} moves {}", ctx.pos.fen4(false), t)));
                        }
                    }
                }
            }
        }
        // fixed-stride choice of base states for the single-feature variants
        let take = if ctx.space.starts_with("U3") {
            ctx.index % u3_stride == off % u3_stride
        } else if ctx.space.starts_with("UC+1") || ctx.space.starts_with("UC+0") || ctx.space == "U2" || ctx.space == "UP" {
            ctx.index % uc_stride == off % uc_stride
        } else if ctx.space.starts_with("BFS") && !ctx.space.contains("fixpoint") {
            ctx.index % bfs_stride == off % bfs_stride
        } else if ctx.space.starts_with("UE+0") {
            ctx.index % (uc_stride * 4) == off % (uc_stride * 4)
        } else {
            false
        };
        if take {
            acc.count("base states with all single-feature variants");
            variants_visit(ctx, acc, h);
            reached_variants(ctx, acc);
            // the hashes a tree walk sees: every legal move made and taken back in turn on ONE game (as a search does),
            // each successor's hash entered under the successor's key. A make that relies on what the previous unmake
            // left behind (a per-square memo, a saved-hash stack) gives two different successors one hash here although
            // every hash reached by making moves only is right.
            let mut walk = g.clone();
            for m in ctx.pos.legal() {
                let t = m.uci();
                let Some(em) = find_move(&mut walk, &t) else { continue };
                if let Ok(hh) = guarded(|| {
                    walk.push(em);
                    let x = walk.hash();
                    walk.pop(em);
                    x
                }) {
                    acc.pairs.push((hh, ctx.pos.apply(&m).normalised().key()));
                    acc.transitions += 1;
                    acc.count("hashes of successors reached in a make/unmake walk entered into the table");
                }
            }
            if acc.samples.len() < 2 {
                acc.sample(json::obj(vec![("base", json::s(ctx.pos.fen6(false))), ("hash", json::s(format!("{:X}", h))), ("variants", json::s("side, 4 rights, 9 ep values pairwise, 62 squares x 10 other non-king contents"))]));
            }
        }
    };
    let (mut acc, reports) = run_spaces(&spaces, &visit);
    // (a) global collision table
    let mut pairs = std::mem::take(&mut acc.pairs);
    let n_pairs = pairs.len();
    pairs.sort_unstable();
    pairs.dedup();
    let distinct = pairs.len();
    let mut collisions = 0u64;
    for w in pairs.windows(2) {
        if w[0].0 == w[1].0 && w[0].1 != w[1].1 {
            collisions += 1;
            let a = key_to_text(&w[0].1);
            let b = key_to_text(&w[1].1);
            // how each side of the pair got its hash: loaded from text, or carried through a move
            let route = |k: &[u8; 34], text: &str| -> String {
                if hash_by_route(text).ok().flatten() == Some(w[0].0) {
                    return text.to_string();
                }
                REACHED.lock().ok().and_then(|r| r.iter().find(|(kk, route)| kk == k && hash_by_route(route).ok().flatten() == Some(w[0].0)).map(|x| x.1.clone())).unwrap_or_else(|| text.to_string())
            };
            // the provenance search is expensive (a scan of the reached list with a replay per candidate): done for
            // the first collisions only, the rest are reported with their positions alone
            let (ra, rb) = if collisions <= 40 { (route(&w[0].1, &a), route(&w[1].1, &b)) } else { (a.clone(), b.clone()) };
            acc.violation(format!("collision|{}|{}", a, b), format!("two distinct positions share the hash {:X}: {} [reached as: {}] and {} [reached as: {}]", w[0].0, a, ra, b, rb), json::obj(vec![("kind", json::s("c05-collision")), ("a", json::s(ra)), ("b", json::s(rb)), ("a_position", json::s(a.clone())), ("b_position", json::s(b.clone()))]));
        }
    }
    acc.add("entries in the global hash -> position table", n_pairs as u64);
    acc.add("distinct positions in the table", distinct as u64);
    acc.add("collisions", collisions);
    acc.outcome(format!("distinct positions {}", distinct));
    acc.outcome("collision table");
    // (c) key table algebra
    let k = keys();
    let mut bad = vec![];
    if k.side == 0 {
        bad.push("side key is zero".to_string());
    }
    for s in 0..64 {
        let mut v: Vec<u64> = k.piece[s].to_vec();
        v.push(k.empty);
        for i in 0..v.len() {
            for j in i + 1..v.len() {
                if v[i] == v[j] {
                    bad.push(format!("square {}: contents {} and {} have the same key", sq_name(s as u8), i, j));
                }
            }
        }
    }
    for i in 0..256 {
        for j in i + 1..256 {
            if k.state[i] == k.state[j] {
                bad.push(format!("state keys {} and {} equal", i, j));
            }
        }
    }
    acc.add("key-table pairwise comparisons", 64 * 78 + 256 * 255 / 2 + 1);
    for b in bad {
        acc.violation(format!("keytable|{}", b), format!("key file: {}", b), json::obj(vec![("kind", json::s("keytable"))]));
    }
    let mut out = Outcome::new(acc, reports, "(a) every state of every listed space enters one global table engine-hash -> model key; no hash may map to two keys. (b) for a fixed-stride subset of base states, every single-feature variant (side; each right; all 9 en-passant values pairwise; each non-king square to each of the 10 other non-king contents) is loaded from text with Game::new and must hash differently; the hash carried after every move out of a base state must differ from every state-feature variant of the successor; the successors' hashes seen in a make/unmake walk over all legal moves on one game enter the table of (a). (c) pairwise distinctness inside the key file per feature");
    out.traces_validated = out.acc.transitions;
    out.assumptions = vec![
        "collision freedom is established over the positions visited in this run, not over all of chess".into(),
        "variants are loaded through the engine's FEN reader; variants it refuses (e.g. a king removed) are counted and skipped".into(),
    ];
    out
}

pub fn key_to_text(k: &[u8; 34]) -> String {
    let mut p = Pos::empty();
    for i in 0..32 {
        p.b[2 * i] = k[i] & 15;
        p.b[2 * i + 1] = k[i] >> 4;
    }
    p.white = k[32] & 16 != 0;
    p.rights = k[32] & 15;
    let ep = if k[33] < 8 { format!("{}{}", (b'a' + k[33]) as char, if p.white { '6' } else { '3' }) } else { "-".into() };
    format!("{} {} {} {}", p.placement_field(), if p.white { 'w' } else { 'b' }, p.rights_field(), ep)
}

pub fn replay(j: &J) -> Result<Acc, String> {
    let mut acc = Acc::new();
    match j.get("kind").and_then(|x| x.as_str()) {
        Some("c05-variant") => {
            let base = j.get("base").and_then(|x| x.as_str()).ok_or("base")?;
            let pos = parse_fen_strict(base)?.pos;
            let h = hash_of_fen(base)?.ok_or("base refused")?;
            let ctx = StateCtx { pos: &pos, root: None, path: &[], space: "replay", index: 0 };
            variants_visit(&ctx, &mut acc, h);
        }
        Some("c05-reached") => {
            let base = j.get("fen").and_then(|x| x.as_str()).ok_or("fen")?;
            let pos = parse_fen_strict(base)?.pos.normalised();
            let ctx = StateCtx { pos: &pos, root: None, path: &[], space: "replay", index: 0 };
            reached_variants(&ctx, &mut acc);
        }
        Some("c05-collision") => {
            let a = j.get("a").and_then(|x| x.as_str()).ok_or("a")?;
            let b = j.get("b").and_then(|x| x.as_str()).ok_or("b")?;
            let (ha, hb) = (hash_by_route(a)?, hash_by_route(b)?);
            let same_position = j.get("a_position").and_then(|x| x.as_str()).is_some() && j.get("a_position").and_then(|x| x.as_str()) == j.get("b_position").and_then(|x| x.as_str());
            if ha.is_some() && ha == hb && !same_position {
                acc.violation("collision", format!("{} and {} share hash {:X}", a, b, ha.unwrap()), j.clone());
            }
        }
        _ => return Err("unknown C05 replay kind".into()),
    }
    Ok(acc)
}
