//! E3: operation-sequence exploration of search histories over one shared
//! transposition table. Serves C06 (announced move legal), C18 (PV playable)
//! and C08-a (depth limit respected whatever the table holds).
#![allow(dead_code)]

use crate::bind::*;
use crate::chess::Game;
use crate::explore::*;
use crate::json::{self, J};
use crate::props::core::*;
use crate::refchess::*;
use crate::report::Outcome;
use crate::search::TranspositionTable;
use crate::srch::*;
use crate::universe::Universe;

pub const MATED: &str = "7k/6Q1/6K1/8/8/8/8/8 b - - 0 1";
pub const STALEMATED: &str = "7k/5Q2/6K1/8/8/8/8/8 b - - 0 1";
pub const SINGLE_MOVE: &str = "7k/8/6K1/8/8/8/8/5Q2 b - - 0 1";
pub const PERPETUAL: (&str, &str) = ("6k1/5pp1/8/8/7Q/8/1q6/6K1 w - - 0 1", "h4d8 g8h7 d8h4 h7g8 h4d8");
pub const OTHER_GAME: &str = "r1bqkbnr/pppp1ppp/2n5/4p3/4P3/5N2/PPPP1PPP/RNBQKB1R w KQkq - 2 3";

pub fn family_roots() -> Vec<(&'static str, &'static str)> {
    vec![
        ("opening", ROOT_START),
        ("tactical", ROOT_KIWI),
        ("promotion-race", "8/1P4k1/8/8/8/8/1p4K1/8 w - - 0 1"),
        ("KPk", "8/8/4k3/8/8/3K4/4P3/8 w - - 0 1"),
        ("KRk", ROOT_KRK),
        ("castling-ep", "r3k2r/8/8/3pP3/8/8/8/R3K2R w KQkq d6 0 1"),
        ("mate-net", "6k1/5ppp/8/8/8/8/5PPP/3R2K1 w - - 0 1"),
        ("KQk-mate-in-1", "7k/5Q2/6K1/8/8/8/8/8 w - - 0 1"),
        // the en-passant capture is the best move (it forks two knights); the family contains the twin without the opportunity
        ("ep-is-best", "4k3/2n1n3/8/3pP3/8/8/8/6K1 w - d6 0 1"),
    ]
}

/// The related position set P of one family (DESIGN.md C06): the root, three
/// successors, two move orders reaching one position, the other side to move,
/// changed rights / en-passant, a shuffled history on which the root
/// repetition filter fires, a single-reply root, checkmated and stalemated
/// roots, and a position from a different game.
pub fn family(root_fen: &str) -> Vec<RootSpec> {
    let mut v = vec![RootSpec::fen(root_fen)];
    let p = parse_fen_strict(root_fen).unwrap().pos.normalised();
    let legal = p.legal();
    let mut sorted: Vec<Mv> = legal.clone();
    sorted.sort_by_key(|m| m.uci());
    // three successors, spread over the list
    let n = sorted.len();
    for i in [0, n / 2, n.saturating_sub(1)] {
        if i < n {
            v.push(RootSpec::fen(&p.apply(&sorted[i]).normalised().fen6(false)));
        }
    }
    // two orders of the same three plies: m1 x m3 and m3 x m1 reaching one position
    'outer: for m1 in &sorted {
        let p1 = p.apply(m1).normalised();
        for x in p1.legal() {
            let p2 = p1.apply(&x).normalised();
            for m3 in p2.legal() {
                if m3.uci() == m1.uci() {
                    continue;
                }
                // is m3 x m1 also playable from p, reaching the same position?
                let Some(a) = legal.iter().find(|m| m.uci() == m3.uci()) else { continue };
                let q1 = p.apply(a).normalised();
                let Some(b) = q1.legal().into_iter().find(|m| m.uci() == x.uci()) else { continue };
                let q2 = q1.apply(&b).normalised();
                let Some(c) = q2.legal().into_iter().find(|m| m.uci() == m1.uci()) else { continue };
                if q2.apply(&c).normalised() == p2.apply(&m3).normalised() {
                    v.push(RootSpec::with(root_fen, &format!("{} {} {}", m1.uci(), x.uci(), m3.uci())));
                    v.push(RootSpec::with(root_fen, &format!("{} {} {}", m3.uci(), x.uci(), m1.uci())));
                    break 'outer;
                }
            }
        }
    }
    // other side to move
    let mut o = p;
    o.white = !p.white;
    o.ep = None;
    if o.sane() {
        v.push(RootSpec::fen(&o.fen6(false)));
    }
    // rights dropped / ep dropped
    if p.rights != 0 {
        let mut q = p;
        q.rights = 0;
        v.push(RootSpec::fen(&q.fen6(false)));
    }
    // the same placement without the en-passant opportunity (a different position with a near-identical table neighbourhood)
    if p.ep.is_some() {
        let mut q = p;
        q.ep = None;
        v.push(RootSpec::fen(&q.fen6(false)));
    }
    // shuffle a b a' b' a : the record's last move equals the fifth-last, the filter removes b
    let reversible = |pos: &Pos, m: &Mv| -> Option<Mv> {
        if m.captured != 0 || kind_of(m.piece) == P || m.kind != MvKind::Normal {
            return None;
        }
        let after = pos.apply(m).normalised();
        // the opponent moves in between, so look for the inverse two plies later
        let _ = after;
        Some(Mv { from: m.to, to: m.from, ..*m })
    };
    'sh: for a in &sorted {
        let Some(a_back) = reversible(&p, a) else { continue };
        let p1 = p.apply(a).normalised();
        let mut l1 = p1.legal();
        l1.sort_by_key(|m| m.uci());
        for b in &l1 {
            let Some(b_back) = reversible(&p1, b) else { continue };
            let p2 = p1.apply(b).normalised();
            if !p2.legal().iter().any(|m| m.uci() == a_back.uci()) {
                continue;
            }
            let p3 = p2.apply(&a_back).normalised();
            if !p3.legal().iter().any(|m| m.uci() == b_back.uci()) {
                continue;
            }
            let p4 = p3.apply(&b_back).normalised();
            if !p4.legal().iter().any(|m| m.uci() == a.uci()) {
                continue;
            }
            v.push(RootSpec::with(root_fen, &format!("{} {} {} {} {}", a.uci(), b.uci(), a_back.uci(), b_back.uci(), a.uci())));
            break 'sh;
        }
    }
    v.push(RootSpec::fen(SINGLE_MOVE));
    // forced-reply perpetual: after the shuffle the mover has exactly one legal move, and it is the move the root's
    // repetition filter would drop
    v.push(RootSpec::with(PERPETUAL.0, PERPETUAL.1));
    v.push(RootSpec::fen(MATED));
    v.push(RootSpec::fen(STALEMATED));
    v.push(RootSpec::fen(OTHER_GAME));
    v.sort();
    v.dedup();
    v
}

/// every shuffle history a b a' b' a from `root_fen` (first `max_a` reversible moves a, every reversible reply b):
/// the record's last move equals the fifth-last, so the root repetition filter (and anything that imitates it) fires,
/// and for every possible "repetition move" b there is one root
pub fn all_shuffles(root_fen: &str, max_a: usize) -> Vec<RootSpec> {
    let mut v = vec![];
    let Ok(parsed) = parse_fen_strict(root_fen) else { return v };
    let p = parsed.pos.normalised();
    let rev = |m: &Mv| -> Option<Mv> {
        if m.captured != 0 || kind_of(m.piece) == P || m.kind != MvKind::Normal {
            None
        } else {
            Some(Mv { from: m.to, to: m.from, ..*m })
        }
    };
    let mut la = p.legal();
    la.sort_by_key(|m| m.uci());
    let mut used_a = 0;
    for a in &la {
        let Some(a_back) = rev(a) else { continue };
        let p1 = p.apply(a).normalised();
        let mut any = false;
        let mut lb = p1.legal();
        lb.sort_by_key(|m| m.uci());
        for b in &lb {
            let Some(b_back) = rev(b) else { continue };
            let p2 = p1.apply(b).normalised();
            if !p2.legal().iter().any(|m| m.uci() == a_back.uci()) {
                continue;
            }
            let p3 = p2.apply(&a_back).normalised();
            if !p3.legal().iter().any(|m| m.uci() == b_back.uci()) {
                continue;
            }
            let p4 = p3.apply(&b_back).normalised();
            if !p4.legal().iter().any(|m| m.uci() == a.uci()) {
                continue;
            }
            v.push(RootSpec::with(root_fen, &format!("{} {} {} {} {}", a.uci(), b.uci(), a_back.uci(), b_back.uci(), a.uci())));
            any = true;
        }
        if any {
            used_a += 1;
            if used_a >= max_a {
                break;
            }
        }
    }
    v
}

/// the first reversible four-ply cycle a b a' b' from a position (sorted move order), if any
pub fn first_cycle(p: &Pos) -> Option<[String; 4]> {
    let rev = |m: &Mv| -> Option<Mv> {
        if m.captured != 0 || kind_of(m.piece) == P || m.kind != MvKind::Normal {
            None
        } else {
            Some(Mv { from: m.to, to: m.from, ..*m })
        }
    };
    let mut la = p.legal();
    la.sort_by_key(|m| m.uci());
    for a in &la {
        let Some(a_back) = rev(a) else { continue };
        let p1 = p.apply(a).normalised();
        let mut lb = p1.legal();
        lb.sort_by_key(|m| m.uci());
        for b in &lb {
            let Some(b_back) = rev(b) else { continue };
            let p2 = p1.apply(b).normalised();
            if !p2.legal().iter().any(|m| m.uci() == a_back.uci()) {
                continue;
            }
            let p3 = p2.apply(&a_back).normalised();
            if !p3.legal().iter().any(|m| m.uci() == b_back.uci()) {
                continue;
            }
            let p4 = p3.apply(&b_back).normalised();
            if p4.key() != p.key() {
                continue;
            }
            return Some([a.uci(), b.uci(), a_back.uci(), b_back.uci()]);
        }
    }
    None
}

/// The dimension "move counters and long reversible histories" for every check that searches: each family root (and
/// three mating roots) with the halfmove clock / fullmove number of its FEN set to each pair of a boundary grid (a
/// GUI sends these with every `position fen`; the fifty-move boundary is 100), and each root after a reversible
/// shuffle of 96..=104 and 196..=201 plies played into the record (the same boundary reached by play; lengths of both
/// parities and residues mod 4, so the record ends in every phase of the cycle). The rules of the engine's interface
/// know no draw claims: a position with legal moves must be answered with one of them whatever the counters say.
pub fn counter_roots() -> Vec<RootSpec> {
    let mut v = vec![];
    let mut bases: Vec<String> = family_roots().iter().map(|x| x.1.to_string()).collect();
    bases.push("6k1/8/6K1/8/8/8/8/R7 w - - 0 1".into()); // mate in one
    bases.push("k7/8/1K6/8/8/8/8/7R b - - 0 1".into()); // defender to move, mated next move
    bases.push("8/8/8/8/8/5k2/5p2/5K2 w - - 0 1".into()); // stalemate
    for fen in &bases {
        let f4: String = fen.split(' ').take(4).collect::<Vec<_>>().join(" ");
        for (h, f) in [(1, 1), (49, 40), (50, 40), (99, 80), (100, 80), (101, 80), (150, 200), (255, 300), (9999, 9999)] {
            v.push(RootSpec::fen(&format!("{} {} {}", f4, h, f)));
        }
        let Ok(parsed) = parse_fen_strict(fen) else { continue };
        let p = parsed.pos.normalised();
        if let Some(c) = first_cycle(&p) {
            for len in [96usize, 97, 98, 99, 100, 101, 102, 103, 104, 196, 197, 198, 199, 200, 201] {
                let h: Vec<&str> = (0..len).map(|i| c[i % 4].as_str()).collect();
                v.push(RootSpec::with(fen, &h.join(" ")));
            }
        }
    }
    v
}

/// the colour mirror of every history-less member of every family (Black's castling, Black's en passant, Black's
/// promotions as the best move of the root): whatever the engine encodes per colour shows only on one side
pub fn mirror_roots() -> Vec<RootSpec> {
    let mut v = vec![];
    for (_, root) in family_roots() {
        for spec in family(root) {
            if !spec.history.is_empty() {
                continue;
            }
            if let Ok(p) = parse_fen_strict(&spec.fen) {
                let m = p.pos.normalised().mirror();
                if m.sane() {
                    v.push(RootSpec::fen(&m.fen6(false)));
                }
            }
        }
    }
    v.sort();
    v.dedup();
    v
}

/// every counter / long-history root once, fresh table, depths 1..=3
pub fn counter_histories(which: Which) -> (Acc, SpaceReport) {
    let mut roots = counter_roots();
    let n_counter = roots.len();
    roots.extend(mirror_roots());
    let t0 = std::time::Instant::now();
    let acc = par_items(&roots, &|_, spec, acc| {
        let (game, pos) = match spec.build() {
            Ok(x) => x,
            Err(e) => {
                // a root the engine refuses or cannot replay is C17's / C02's business; here it is not searched
                acc.count("counter roots that could not be built (reported elsewhere)");
                acc.notes.push(format!("counter root not built: {}", e));
                return;
            }
        };
        acc.states += 1;
        let b = Built { spec: spec.clone(), game, legal: pos.legal_uci_sorted(), pos };
        for d in [1u8, 2, 3] {
            let mut t = new_table();
            let run = run_search(&b.game, &mut t, &SearchCfg::depth(d));
            let w = format!("S[{} ; depth {}]", b.spec.text(), d);
            let wj = J::Arr(vec![json::obj(vec![("op", json::s("search")), ("fen", json::s(b.spec.fen.clone())), ("history", json::s(b.spec.history.join(" "))), ("depth", json::i(d))])]);
            judge(which, &b, d, &run, &w, &wj, acc);
            acc.transitions += 1;
            // and once more on the table it left (answer served from the cached root entry)
            let run2 = run_search(&b.game, &mut t, &SearchCfg::depth(d));
            if let J::Arr(one) = &wj {
                judge(which, &b, d, &run2, &format!("{} ; {}", w, w), &J::Arr(vec![one[0].clone(), one[0].clone()]), acc);
            }
            acc.transitions += 1;
        }
    });
    let n = acc.states;
    (acc, SpaceReport { name: format!("move-counter and long-history roots ({} roots: FEN counters on a boundary grid, reversible shuffles of 96..=104 and 196..=201 plies) and {} colour mirrors of the family positions, depths 1..=3, each asked twice on one table", n_counter, roots.len() - n_counter), states: n, exhaustive: true, note: format!("[{:.1}s]", t0.elapsed().as_secs_f64()) })
}

#[derive(Clone, Debug, PartialEq)]
pub enum Op {
    Search(usize, u8),
    NewGame,
}

pub fn word_text(roots: &[RootSpec], w: &[Op]) -> String {
    w.iter()
        .map(|o| match o {
            Op::Search(i, d) => format!("S[{} ; depth {}]", roots[*i].text(), d),
            Op::NewGame => "NEWGAME".to_string(),
        })
        .collect::<Vec<_>>()
        .join(" ; ")
}

pub fn word_json(roots: &[RootSpec], w: &[Op]) -> J {
    J::Arr(
        w.iter()
            .map(|o| match o {
                Op::Search(i, d) => json::obj(vec![("op", json::s("search")), ("fen", json::s(roots[*i].fen.clone())), ("history", json::s(roots[*i].history.join(" "))), ("depth", json::i(*d))]),
                Op::NewGame => json::obj(vec![("op", json::s("newgame"))]),
            })
            .collect(),
    )
}

pub struct Built {
    pub spec: RootSpec,
    pub game: Game,
    pub pos: Pos,
    pub legal: Vec<String>,
}

pub fn build_all(roots: &[RootSpec]) -> Result<Vec<Built>, String> {
    roots
        .iter()
        .map(|r| {
            let (game, pos) = r.build()?;
            let legal = pos.legal_uci_sorted();
            Ok(Built { spec: r.clone(), game, pos, legal })
        })
        .collect()
}

/// Which oracle to apply to each search of each word
#[derive(Clone, Copy, PartialEq)]
pub enum Which {
    C06,
    C18,
    C08,
}

pub fn judge(which: Which, b: &Built, d: u8, run: &SearchRun, word: &str, wjson: &J, acc: &mut Acc) {
    acc.evaluations += 1;
    let replay = json::obj(vec![("kind", json::s("e3-word")), ("word", wjson.clone())]);
    match which {
        Which::C06 => {
            match &run.result {
                Err(p) => acc.violation(format!("c06-panic|{}", word), format!("the search died instead of announcing a move: {} [{}]", p, word), replay.clone()),
                Ok(Some(m)) => {
                    acc.outcome(if run.deeper_seen { "move, ran deeper" } else { "move" });
                    if !b.legal.contains(m) {
                        acc.violation(format!("c06-illegal|{}", word), format!("announced {} which is not legal in {} (legal: {:?}) [{}]", m, b.pos.fen4(false), b.legal, word), replay.clone());
                    }
                }
                Ok(None) => {
                    acc.outcome("no move");
                    if !b.legal.is_empty() && !run.deeper_seen && !run.watchdog_fired {
                        acc.violation(format!("c06-none|{}", word), format!("reported no move although {} has legal moves {:?} [{}]", b.pos.fen4(false), b.legal, word), replay.clone());
                    }
                }
            }
            if b.legal.is_empty() {
                if let Ok(Some(m)) = &run.result {
                    acc.violation(format!("c06-invented|{}", word), format!("announced {} in a position without legal moves [{}]", m, word), replay.clone());
                }
            }
            if let Some(ch) = &run.game_changed {
                acc.violation(format!("c06-game-changed|{}", word), format!("the caller's game was changed by the search: {} [{}]", ch, word), replay.clone());
            }
            if run.deeper_seen {
                acc.count("searches that ran past their depth limit (C08's business, cut short by the monitor)");
            }
        }
        Which::C18 => {
            for line in pv_lines(&run.transcript) {
                acc.transitions += line.len() as u64;
                if line.is_empty() {
                    acc.count("empty pv lines");
                } else {
                    acc.count("non-empty pv lines");
                    if line.iter().rev().skip(1).any(|m| m.len() == 5 && !m.ends_with('q')) {
                        acc.count("pv lines that continue after an under-promotion");
                    }
                    acc.max("longest pv line", line.len() as u64);
                }
                if let Err((i, t)) = line_playable(&b.pos, &line) {
                    acc.violation(format!("c18-pv|{}", word), format!("info pv {:?}: move {} ({}) cannot be played from {} [{}]", line.join(" "), i + 1, t, b.pos.fen4(false), word), replay.clone());
                }
            }
        }
        Which::C08 => {
            if let Err(p) = &run.result {
                acc.violation(format!("c08-panic|{}", word), format!("depth-limited search crashed: {} [{}]", p, word), replay.clone());
            }
            if run.deeper_seen {
                acc.outcome("ran deeper");
                acc.violation(format!("c08-deeper|{}", word), format!("search with depth limit {} entered a node of iteration depth {} [{}]", d, run.max_iter_depth, word), replay.clone());
            } else if run.watchdog_fired {
                acc.violation(format!("c08-runon|{}", word), format!("search with depth limit {} did not end by itself within {} polls [{}]", d, run.polls, word), replay.clone());
            } else {
                acc.outcome(format!("ended at depth <= {}", d));
            }
            acc.max("deepest iteration depth polled", run.max_iter_depth as u64);
        }
    }
}

fn dfs(which: Which, built: &[Built], roots: &[RootSpec], alphabet: &[Op], word: &mut Vec<Op>, table: &TranspositionTable, max_len: usize, deep_allowed: &dyn Fn(&[Op]) -> bool, acc: &mut Acc) {
    if word.len() >= max_len {
        return;
    }
    for op in alphabet {
        word.push(op.clone());
        if !deep_allowed(word) {
            word.pop();
            continue;
        }
        let mut t = table.clone();
        match op {
            Op::NewGame => {
                t.clear();
            }
            Op::Search(i, d) => {
                let b = &built[*i];
                let run = run_search(&b.game, &mut t, &SearchCfg::depth(*d));
                acc.states += 1;
                let wt = word_text(roots, word);
                let wj = word_json(roots, word);
                judge(which, b, *d, &run, &wt, &wj, acc);
                if acc.samples.len() < 3 && word.len() == max_len.min(2) {
                    acc.sample(json::obj(vec![("word", wj), ("last_result", json::s(format!("{:?}", run.result))), ("transcript_tail", json::strs(&run.transcript.iter().rev().take(4).rev().cloned().collect::<Vec<_>>()))]));
                }
                if run.result.is_err() {
                    // a crashed search leaves an unusable engine (in the real binary the mutex is poisoned): stop this branch
                    word.pop();
                    continue;
                }
            }
        }
        acc.transitions += 1;
        dfs(which, built, roots, alphabet, word, &t, max_len, deep_allowed, acc);
        word.pop();
    }
}

pub fn explore_family(which: Which, name: &str, root: &str, depths: &[u8], max_len: usize, small_depth: u8, acc: &mut Acc) {
    let roots = family(root);
    let built = match build_all(&roots) {
        Ok(b) => b,
        Err(e) => {
            acc.errors.push(format!("family {}: {}", name, e));
            return;
        }
    };
    let mut alphabet = vec![];
    for d in depths {
        for i in 0..roots.len() {
            alphabet.push(Op::Search(i, *d));
        }
    }
    alphabet.push(Op::NewGame);
    acc.add(&format!("family {}: positions", name), roots.len() as u64);
    acc.add(&format!("family {}: alphabet symbols", name), alphabet.len() as u64);
    // words of full length only when all but the last search are shallow (simplest-first bound, DESIGN.md C06)
    let allowed = |w: &[Op]| -> bool {
        if w.len() < max_len {
            return true;
        }
        w[..w.len() - 1].iter().all(|o| match o {
            Op::Search(_, d) => *d <= small_depth,
            Op::NewGame => true,
        })
    };
    // parallelise over the first symbol
    let first: Vec<Op> = alphabet.clone();
    drop(built);
    let a = par_items(&first, &|_, op, acc| {
        // `Game` is not Sync (Cell fields): every worker builds its own copies
        let built = match build_all(&roots) {
            Ok(b) => b,
            Err(e) => {
                acc.errors.push(e);
                return;
            }
        };
        let mut word = vec![];
        let table = new_table();
        // run the one-symbol prefix through the same code path
        let single = vec![op.clone()];
        dfs_from_prefix(which, &built, &roots, &alphabet, &single, &mut word, &table, max_len, &allowed, acc);
    });
    acc.merge(a);
}

fn dfs_from_prefix(which: Which, built: &[Built], roots: &[RootSpec], alphabet: &[Op], first: &[Op], word: &mut Vec<Op>, table: &TranspositionTable, max_len: usize, allowed: &dyn Fn(&[Op]) -> bool, acc: &mut Acc) {
    // like dfs, but the first level is restricted to `first`
    dfs(which, built, roots, first, word, table, 1, allowed, acc);
    // now descend below that first symbol with the full alphabet
    for op in first {
        word.push(op.clone());
        let mut t = table.clone();
        let ok = match op {
            Op::NewGame => {
                t.clear();
                true
            }
            Op::Search(i, d) => {
                // re-execute silently to obtain the table (deterministic)
                let run = run_search(&built[*i].game, &mut t, &SearchCfg::depth(*d));
                run.result.is_ok()
            }
        };
        if ok {
            dfs(which, built, roots, alphabet, word, &t, max_len, allowed, acc);
        }
        word.pop();
    }
}

/// every small position as a root once, fresh table
pub fn roots_once(which: Which, tier: &str, seed: i64) -> (Acc, Vec<SpaceReport>) {
    let off = seed.unsigned_abs();
    let q = tier == "quick";
    let spaces = vec![
        Space::slice(Universe::U2, if q { 4 } else { 1 }, off),
        Space::slice(Universe::U3, if q { 400 } else { 40 }, off),
        Space::slice(Universe::UC { extras: 0 }, 1, 0),
        Space::slice(Universe::UC { extras: 1 }, if q { 40 } else { 4 }, off),
        Space::slice(Universe::UE { extras: 0, capturer_files: None, slider_only: false }, if q { 60 } else { 6 }, off),
        Space::slice(Universe::UP, if q { 8 } else { 1 }, off),
        // a pawn on the 7th against a rook or queen: roots where an under-promotion (a knight fork, a stalemate-avoiding
        // rook) is the best move, so that lines continue with a move of the new piece
        Space::all(Universe::UPQ),
        Space::all(Universe::UNF),
    ];
    run_spaces(&spaces, &|ctx, acc| {
        let Ok(g) = load(ctx.pos) else { return };
        let legal = ctx.pos.legal_uci_sorted();
        let b = Built { spec: RootSpec::fen(&ctx.pos.fen6(false)), game: g, pos: *ctx.pos, legal };
        for d in [1u8, 2, 3] {
            let mut t = new_table();
            let run = run_search(&b.game, &mut t, &SearchCfg::depth(d));
            let w = format!("S[{} ; depth {}]", b.spec.fen, d);
            let wj = J::Arr(vec![json::obj(vec![("op", json::s("search")), ("fen", json::s(b.spec.fen.clone())), ("history", json::s("")), ("depth", json::i(d))])]);
            judge(which, &b, d, &run, &w, &wj, acc);
            acc.transitions += 1;
            // the same question again on the table the first search left: the answer now comes from the cached root
            // entry (whatever form the table keeps a move in, it must come back as the move that was stored)
            let run2 = run_search(&b.game, &mut t, &SearchCfg::depth(d));
            let w2 = format!("{} ; {}", w, w);
            let one = json::obj(vec![("op", json::s("search")), ("fen", json::s(b.spec.fen.clone())), ("history", json::s("")), ("depth", json::i(d))]);
            judge(which, &b, d, &run2, &w2, &J::Arr(vec![one.clone(), one]), acc);
            acc.transitions += 1;
        }
    })
}

/// Walk the game tree below `g` to `plies` with the real generator and look every position up in the table (hook H5:
/// read-only accessor of the cached move). Returns the paths of positions whose cached move is not one of their
/// legal moves. This is the invariant behind C06/C18 ("a cached move is legal wherever its hash recurs"); a breach is
/// not yet a violation - the caller turns it into one by searching that position and judging what is announced/printed.
fn audit_table(g: &mut Game, table: &TranspositionTable, plies: u32, path: &mut Vec<String>, budget: &mut u32, out: &mut Vec<(Vec<String>, String)>) {
    if *budget == 0 {
        return;
    }
    *budget -= 1;
    let list = moves(g, true);
    if let Some(e) = table.get(&g.hash()) {
        if let Some(m) = e.verif_pv() {
            if !list.iter().any(|x| *x == m) {
                out.push((path.clone(), m.uci_notation()));
            }
        }
    }
    if plies == 0 {
        return;
    }
    for m in list.iter() {
        g.push(*m);
        path.push(m.uci_notation());
        audit_table(g, table, plies - 1, path, budget, out);
        path.pop();
        g.pop(*m);
    }
}

/// Histories that contain INTERRUPTED searches (every timed search of real play is one): for every root of every family
/// and depth 2..=3, for every stop point N (all of 0..=P when P is small, else a fixed stride giving ~48 (quick) / ~1500 (thorough) points): the
/// search is stopped inside poll N on a fresh table; then (1) the same root is searched again on that table, (2) the
/// table is audited to the search depth and every position holding a cached move that is not legal there is searched
/// at depths 1 and 2. All follow-up searches are judged by the property's oracle (C06: announced move; C18: pv lines).
pub fn interrupted_histories(which: Which, tier: &str) -> (Acc, SpaceReport) {
    let q = tier == "quick";
    let mut cases: Vec<(RootSpec, u8)> = vec![];
    for (_, root) in family_roots() {
        for spec in family(root) {
            // depth 4 (5 thorough) matters: an interrupted iteration k meets the entries stored by iteration k-1, and
            // nodes one ply below the root are stored from iteration 3 on. Cases whose free run is too big are dropped below
            for d in 2..=(if q { 4 } else { 5 }) {
                cases.push((spec.clone(), d));
            }
        }
    }
    cases.sort();
    cases.dedup();
    let t0 = std::time::Instant::now();
    let acc = par_items(&cases, &|_, (spec, d), acc| {
        let Ok((game, pos)) = spec.build() else { return };
        let legal = pos.legal_uci_sorted();
        if legal.len() < 2 {
            return;
        }
        let mut t = new_table();
        let free = run_search(&game, &mut t, &SearchCfg::depth(*d));
        if free.result.is_err() {
            return;
        }
        let p = free.polls;
        if *d >= 4 && p > (if q { 12_000 } else { 400_000 }) {
            acc.count("interrupted histories: (root, depth >= 4) cases skipped because the free run is too large");
            return;
        }
        let stride = if q { (p / 48).max(1) } else { (p / 1500).max(1) };
        let audit_budget: u32 = if q { 3_000 } else { 60_000 };
        let b_root = Built { spec: spec.clone(), game: game.clone(), pos, legal };
        // stop points: a fixed stride over the whole run, plus every poll of the first 12 after the start and after each
        // iteration boundary (the first nodes of an iteration are the principal-variation nodes of the previous one:
        // the places where an interrupted search meets EXACT entries)
        let mut points: std::collections::BTreeSet<u64> = std::collections::BTreeSet::new();
        let mut x = 0;
        while x <= p {
            points.insert(x);
            x += stride;
        }
        for m in std::iter::once(0u64).chain(free.iter_marks.iter().copied()) {
            for k in 0..12u64 {
                if m + k <= p {
                    points.insert(m + k);
                }
            }
        }
        // ... and every poll made on entering a node one ply below the root (plus the first three two plies below after
        // each): there the interrupted iteration stands on a node that the previous iteration may have stored as exact
        let shallow_cap = if q { 400 } else { 20_000 };
        let step = (free.shallow_polls.len() / shallow_cap).max(1);
        for (i, x) in free.shallow_polls.iter().enumerate() {
            if i % step == 0 {
                points.insert(*x);
            }
        }
        for n in points {
            let mut table = new_table();
            let mut cfg = SearchCfg::depth(*d);
            cfg.stop_at = n;
            let stopped = run_search(&game, &mut table, &cfg);
            acc.states += 1;
            let first = format!("S-stopped[{} ; depth {} ; stop inside poll {}]", spec.text(), d, n);
            let mk_replay = |follow: &RootSpec, fd: u8| json::obj(vec![("kind", json::s("e3-interrupted")), ("fen", json::s(spec.fen.clone())), ("history", json::s(spec.history.join(" "))), ("depth", json::i(*d)), ("stop_at_poll", json::i(n)), ("follow_fen", json::s(follow.fen.clone())), ("follow_history", json::s(follow.history.join(" "))), ("follow_depth", json::i(fd))]);
            if stopped.result.is_ok() {
                // (1) the same root again
                for fd in [1u8, *d] {
                    let mut t2 = table.clone();
                    let run = run_search(&game, &mut t2, &SearchCfg::depth(fd));
                    let w = format!("{} ; S[{} ; depth {}]", first, spec.text(), fd);
                    judge_with_replay(which, &b_root, fd, &run, &w, mk_replay(spec, fd), acc);
                }
                // (2) audit, then search every position whose cached move is not legal there
                let mut bad = vec![];
                let mut g = game.clone();
                let mut budget = audit_budget;
                audit_table(&mut g, &table, *d as u32, &mut vec![], &mut budget, &mut bad);
                if budget == 0 {
                    acc.count("table audits cut by the node budget (not complete for that table)");
                }
                acc.add("positions looked up by table audits", (audit_budget - budget) as u64);
                for (path, cached) in bad.iter().take(4) {
                    acc.count("table entries whose cached move is not legal in their position (searched as roots)");
                    let mut h = spec.history.clone();
                    h.extend(path.iter().cloned());
                    let follow = RootSpec { fen: spec.fen.clone(), history: h };
                    let Ok((fg, fp)) = follow.build() else { continue };
                    let fb = Built { spec: follow.clone(), game: fg, legal: fp.legal_uci_sorted(), pos: fp };
                    for fd in [1u8, 2] {
                        let mut t2 = table.clone();
                        let run = run_search(&fb.game, &mut t2, &SearchCfg::depth(fd));
                        let w = format!("{} ; [table holds {} for this position] S[{} ; depth {}]", first, cached, follow.text(), fd);
                        judge_with_replay(which, &fb, fd, &run, &w, mk_replay(&follow, fd), acc);
                    }
                }
            }
        }
        if acc.samples.len() < 2 {
            acc.sample(json::obj(vec![("root", json::s(spec.text())), ("depth", json::i(*d)), ("polls_of_the_free_run", json::i(p)), ("stop_points", json::s(format!("0..={} step {}, plus the 12 polls after the start and after each of the iteration boundaries {:?}", p, stride, free.iter_marks)))]));
        }
    });
    let rep = SpaceReport { name: format!("interrupted histories: {} (root, depth) cases of the families, a search stopped inside every poll (all when P <= 48, else ~48 by fixed stride; 1500 in the thorough tier), then the same root again at depth 1 and d, a table audit to depth d, and depth-1/2 searches of every position whose cached move is not legal there", cases.len()), states: acc.states, exhaustive: true, note: format!("[{:.1}s]", t0.elapsed().as_secs_f64()) };
    (acc, rep)
}

/// Self-play lines and deep complete searches (the histories of `auto`, of analysis sessions and of a GUI that lets the
/// engine play both sides): from each root, for each depth plan, the engine searches, its move is played into the
/// record, and the next search runs on the same table - up to 8 plies. After every search the table is audited (tree
/// walk to depth 3) and every position whose cached move is not legal there is searched at depths 1 and 2. Depths go
/// up to 5 (6 thorough) where the tree is small enough: forward pruning, killer/hash-move interplay and mate scores
/// stored by deep searches need remaining depth >= 3 two plies below the root.
pub fn selfplay_histories(which: Which, tier: &str) -> (Acc, SpaceReport) {
    let q = tier == "quick";
    let mut roots: Vec<String> = family_roots().iter().map(|(_, r)| r.to_string()).collect();
    for r in ["4k3/8/8/8/8/8/R7/1R4K1 w - - 0 1", "7k/8/8/8/8/8/2Q5/K7 w - - 0 1", "8/8/8/4k3/8/8/8/R3K2R w KQ - 0 1", "4k3/pp3ppp/8/8/8/8/PPP3PP/4K3 w - - 0 1", "8/5k2/8/8/8/8/1Pp5/K7 b - - 0 1", "r3k2r/8/8/8/8/8/8/R3K2R w KQkq - 0 1", "6k1/5ppp/8/8/8/8/5PPP/R5K1 w - - 0 1", "8/8/8/8/5k2/8/5K2/7q b - - 0 1"] {
        roots.push(r.to_string());
        if let Ok(p) = parse_fen_strict(r) {
            roots.push(p.pos.mirror().fen6(false));
        }
    }
    // a hand-written root that is not a sane position is a configuration error of the harness, never a verdict
    for r in &roots {
        if !parse_fen_strict(r).map(|p| p.pos.normalised().sane()).unwrap_or(false) {
            let mut a = Acc::new();
            a.errors.push(format!("self-play root {} is not a sane position (harness configuration error)", r));
            return (a, SpaceReport { name: "self-play lines".into(), states: 0, exhaustive: false, note: String::new() });
        }
    }
    let mut cases: Vec<(String, u8)> = vec![];
    for r in &roots {
        for d in 1..=(if q { 5 } else { 6 }) {
            cases.push((r.clone(), d));
        }
    }
    let t0 = std::time::Instant::now();
    let acc = par_items(&cases, &|_, (root, d), acc| {
        let mut spec = RootSpec::fen(root);
        let mut table = new_table();
        let poll_cap: u64 = if q { 40_000 } else { 2_000_000 };
        for ply in 0..8 {
            let Ok((game, pos)) = spec.build() else { return };
            let legal = pos.legal_uci_sorted();
            if legal.is_empty() {
                return;
            }
            // size guard: a depth whose previous depth is already large is skipped for this root
            if *d >= 4 {
                let mut probe_t = new_table();
                let pre = run_search(&game, &mut probe_t, &SearchCfg::depth(*d - 1));
                if pre.polls > poll_cap {
                    acc.count("self-play: (position, depth) pairs skipped because the tree is too large");
                    return;
                }
            }
            let b = Built { spec: spec.clone(), game: game.clone(), pos, legal };
            let run = run_search(&game, &mut table, &SearchCfg::depth(*d));
            acc.states += 1;
            let w = format!("self-play from {} at depth {}: search #{} [{}]", root, d, ply + 1, spec.text());
            let replay = json::obj(vec![("kind", json::s("e3-selfplay")), ("root", json::s(root.clone())), ("depth", json::i(*d)), ("ply", json::i(ply))]);
            judge_with_replay(which, &b, *d, &run, &w, replay.clone(), acc);
            let Ok(Some(best)) = &run.result else { return };
            if !b.legal.contains(best) {
                return;
            }
            // audit the table this search leaves behind
            let mut bad = vec![];
            let mut g = game.clone();
            let mut budget: u32 = if q { 6_000 } else { 100_000 };
            let b0 = budget;
            audit_table(&mut g, &table, 3, &mut vec![], &mut budget, &mut bad);
            acc.add("positions looked up by table audits", (b0 - budget) as u64);
            for (path, cached) in bad.iter().take(4) {
                acc.count("table entries whose cached move is not legal in their position (searched as roots)");
                let mut h = spec.history.clone();
                h.extend(path.iter().cloned());
                let follow = RootSpec { fen: spec.fen.clone(), history: h };
                let Ok((fg, fp)) = follow.build() else { continue };
                let fb = Built { spec: follow.clone(), game: fg, legal: fp.legal_uci_sorted(), pos: fp };
                for fd in [1u8, 2] {
                    let mut t2 = table.clone();
                    let r2 = run_search(&fb.game, &mut t2, &SearchCfg::depth(fd));
                    let w2 = format!("{} ; [table holds {} for this position] S[{} ; depth {}]", w, cached, follow.text(), fd);
                    judge_with_replay(which, &fb, fd, &r2, &w2, replay.clone(), acc);
                }
            }
            spec.history.push(best.clone());
        }
    });
    let rep = SpaceReport { name: format!("self-play lines: {} roots x depths 1..={}, up to 8 searches each on one table with the announced move played in between; table audit (depth 3) and probe searches after every search", roots.len(), if q { 5 } else { 6 }), states: acc.states, exhaustive: true, note: format!("[{:.1}s]", t0.elapsed().as_secs_f64()) };
    (acc, rep)
}

/// `judge` with a caller-supplied replay artefact (the word is not a plain E3 word)
fn judge_with_replay(which: Which, b: &Built, d: u8, run: &SearchRun, word: &str, replay: J, acc: &mut Acc) {
    let mut tmp = Acc::new();
    judge(which, b, d, run, word, &J::Null, &mut tmp);
    for v in tmp.violations.drain(..) {
        acc.violation(v.key, v.what, replay.clone());
    }
    tmp.n_violations = 0;
    acc.merge(tmp);
}

pub fn run(prop: &str, tier: &str, seed: i64) -> Outcome {
    let which = match prop {
        "C06" => Which::C06,
        "C18" => Which::C18,
        _ => Which::C08,
    };
    let q = tier == "quick";
    let mut acc = Acc::new();
    let mut reports = vec![];
    for (name, root) in family_roots() {
        let t0 = std::time::Instant::now();
        let before = acc.states;
        let (depths, max_len, small): (Vec<u8>, usize, u8) = match (which, q) {
            (Which::C08, true) => (vec![1, 2, 3, 4], 2, 4),
            (Which::C08, false) => (vec![1, 2, 3, 4, 5], 3, 3),
            (_, true) => (vec![1, 2, 3], 3, 2),
            (_, false) => (vec![1, 2, 3, 4], 3, 2),
        };
        explore_family(which, name, root, &depths, max_len, small, &mut acc);
        reports.push(SpaceReport { name: format!("E3 family {} (depths {:?}, all words of length < {} and those of length {} whose earlier searches have depth <= {})", name, depths, max_len, max_len, small), states: acc.states - before, exhaustive: true, note: format!("[{:.1}s]", t0.elapsed().as_secs_f64()) });
    }
    if which != Which::C08 {
        let (a, r) = roots_once(which, tier, seed);
        acc.merge(a);
        for mut x in r {
            x.name = format!("fresh-table roots: {}", x.name);
            reports.push(x);
        }
    }
    if which != Which::C08 {
        let (a, r) = interrupted_histories(which, tier);
        acc.merge(a);
        reports.push(r);
        let (a, r) = selfplay_histories(which, tier);
        acc.merge(a);
        reports.push(r);
        let (a, r) = counter_histories(which);
        acc.merge(a);
        reports.push(r);
    }
    if which == Which::C06 {
        let (a, r) = crate::props::c08::deep_histories(tier, "C06");
        acc.merge(a);
        reports.push(r);
    }
    let rule = match which {
        Which::C06 => "every word over the alphabet {search(position_i, depth_j), NEWGAME} up to the stated length on one shared table (DFS with table clones == stateless re-execution): each search's result must be a model-legal move of its root, none only without legal moves; the caller's game unchanged; plus every small position once as a root",
        Which::C18 => "every `info pv` line printed by every search of every word of the same exploration is replayed on the reference model from the searched root",
        Which::C08 => "every word over {search(position_i, depth_j), NEWGAME}: no node of iteration depth > limit may be polled (monitor in the node-entry hook), the search must return by itself, no panic",
    };
    // vacuity guards: a report layout the harness does not understand must not pass as "nothing wrong seen"
    if which == Which::C18 && acc.counts.get("non-empty pv lines").copied().unwrap_or(0) == 0 {
        acc.errors.push("no principal variation was recognised in any transcript (has the layout of the `info` lines changed beyond the UCI keyword grammar?)".into());
    }
    let mut out = Outcome::new(acc, reports, rule);
    out.traces_validated = out.acc.states;
    out.assumptions = vec!["depth limits <= 4 (5 for C08 thorough) on seven families of 10-12 related positions; words up to length 3".into(), "DFS with cloned tables is equivalent to re-execution from the empty table because the search is deterministic (C19)".into()];
    out
}

pub fn replay(prop: &str, j: &J) -> Result<Acc, String> {
    let which = match prop {
        "C06" => Which::C06,
        "C18" => Which::C18,
        _ => Which::C08,
    };
    if j.get("kind").and_then(|x| x.as_str()) == Some("e3-selfplay") {
        return Ok(selfplay_histories(which, "quick").0);
    }
    if j.get("kind").and_then(|x| x.as_str()) == Some("e3-interrupted") {
        let g = |k: &str| j.get(k).and_then(|x| x.as_str()).unwrap_or("").to_string();
        let n = |k: &str| j.get(k).and_then(|x| x.as_i()).unwrap_or(0);
        let spec = RootSpec::with(&g("fen"), &g("history"));
        let follow = RootSpec::with(&g("follow_fen"), &g("follow_history"));
        let (game, _) = spec.build()?;
        let (fg, fp) = follow.build()?;
        let mut table = new_table();
        let mut cfg = SearchCfg::depth(n("depth") as u8);
        cfg.stop_at = n("stop_at_poll") as u64;
        let stopped = run_search(&game, &mut table, &cfg);
        out!("  stopped search: {:?}, polls {}", stopped.result, stopped.polls);
        let fb = Built { spec: follow.clone(), game: fg, legal: fp.legal_uci_sorted(), pos: fp };
        let fd = n("follow_depth") as u8;
        let run = run_search(&fb.game, &mut table, &SearchCfg::depth(fd));
        for l in &run.transcript {
            out!("      {}", l);
        }
        let mut acc = Acc::new();
        judge_with_replay(which, &fb, fd, &run, &format!("S-stopped[{} ; depth {} ; stop inside poll {}] ; S[{} ; depth {}]", spec.text(), n("depth"), n("stop_at_poll"), follow.text(), fd), j.clone(), &mut acc);
        return Ok(acc);
    }
    let word = j.get("word").and_then(|x| x.as_arr()).ok_or("word")?;
    let mut acc = Acc::new();
    let mut table = new_table();
    let mut text = vec![];
    for (k, op) in word.iter().enumerate() {
        match op.get("op").and_then(|x| x.as_str()) {
            Some("newgame") => {
                table.clear();
                text.push("NEWGAME".to_string());
            }
            Some("search") => {
                let spec = RootSpec::with(op.get("fen").and_then(|x| x.as_str()).ok_or("fen")?, op.get("history").and_then(|x| x.as_str()).unwrap_or(""));
                let d = op.get("depth").and_then(|x| x.as_i()).ok_or("depth")? as u8;
                let (game, pos) = spec.build()?;
                let b = Built { legal: pos.legal_uci_sorted(), spec, game, pos };
                let run = run_search(&b.game, &mut table, &SearchCfg::depth(d));
                text.push(format!("S[{} ; depth {}]", b.spec.text(), d));
                out!("  step {}: {} -> {:?}; polls {}, deepest iteration {}, deeper-than-limit {}", k + 1, text.last().unwrap(), run.result, run.polls, run.max_iter_depth, run.deeper_seen);
                for l in &run.transcript {
                    out!("      {}", l);
                }
                judge(which, &b, d, &run, &text.join(" ; "), &J::Arr(word[..=k].to_vec()), &mut acc);
                if run.result.is_err() {
                    break;
                }
            }
            _ => return Err("bad op".into()),
        }
    }
    Ok(acc)
}
