//! C19: fixed-depth search is reproducible.
//! (a) every command history ending in `ucinewgame` (words over {position q; go depth e; wait})
//!     followed by `position r; go depth d; wait` must print the transcript of a fresh engine;
//!     through the real uci_talk / command_ucinewgame;
//! (b) the same search under all interleavings with an `isready` in flight (E5);
//! (c) the same searches twice in this process and once in a second process.
#![allow(dead_code)]

use crate::explore::*;
use crate::json::{self, J};
use crate::props::c12::uci_seq;
use crate::props::c14;
use crate::props::e3;
use crate::report::Outcome;
use crate::sched::{self, line, Ev, Guard};
use crate::srch::RootSpec;

fn pos_cmd(r: &RootSpec) -> String {
    if r.history.is_empty() {
        format!("position fen {}", r.fen)
    } else {
        format!("position fen {} moves {}", r.fen, r.history.join(" "))
    }
}

/// the measured part: for every (root, depth): ucinewgame; isready; position; go depth; wait
fn measured_script(roots: &[RootSpec], depths: &[u8]) -> Vec<String> {
    let mut v = vec![];
    for r in roots {
        for d in depths {
            v.push("ucinewgame".to_string());
            v.push("isready".to_string());
            v.push(pos_cmd(r));
            v.push(format!("go depth {}", d));
            v.push("wait".to_string());
        }
    }
    v
}

/// split a transcript into the segments that follow each `readyok`
fn segments(t: &[String]) -> Vec<Vec<String>> {
    let mut out: Vec<Vec<String>> = vec![];
    let mut cur: Option<Vec<String>> = None;
    for l in t {
        if l == "readyok" {
            if let Some(c) = cur.take() {
                out.push(c);
            }
            cur = Some(vec![]);
        } else if let Some(c) = cur.as_mut() {
            c.push(l.clone());
        }
    }
    if let Some(c) = cur {
        out.push(c);
    }
    out
}

pub fn family_histories(name: &str, root: &str, depths: &[u8], prior_depths: &[u8], len2_depth: u8, acc: &mut Acc) {
    let roots = e3::family(root);
    let measured = measured_script(&roots, depths);
    let nseg = roots.len() * depths.len();
    // baseline: fresh engine
    let base = match uci_seq(measured.clone()) {
        Ok(t) => segments(&t),
        Err(e) => {
            acc.violation(format!("c19-died|{}|fresh", name), format!("fresh session died: {}", e), J::Null);
            return;
        }
    };
    if base.len() != nseg {
        acc.errors.push(format!("family {}: {} segments, expected {}", name, base.len(), nseg));
        return;
    }
    // (c) twice in the same process
    match uci_seq(measured.clone()) {
        Ok(t) if segments(&t) == base => acc.count("(c) fresh sessions repeated in-process with identical transcripts"),
        Ok(_) => acc.violation(format!("c19-repeat|{}", name), format!("two fresh sessions of family {} in the same process print different transcripts", name), json::obj(vec![("kind", json::s("c19-history")), ("family", json::s(name)), ("prior", J::Arr(vec![]))])),
        Err(e) => acc.violation(format!("c19-died|{}|repeat", name), e, J::Null),
    }
    // prior words
    let mut symbols: Vec<Vec<String>> = vec![];
    for (i, q) in roots.iter().enumerate() {
        for e in prior_depths {
            let _ = i;
            symbols.push(vec![pos_cmd(q), format!("go depth {}", e), "wait".to_string()]);
        }
    }
    let mut words: Vec<Vec<usize>> = vec![];
    for a in 0..symbols.len() {
        words.push(vec![a]);
    }
    let shallow: Vec<usize> = (0..symbols.len()).filter(|s| symbols[*s][1] == format!("go depth {}", len2_depth) || prior_depths.iter().filter(|d| **d <= len2_depth).any(|d| symbols[*s][1] == format!("go depth {}", d))).collect();
    for &a in &shallow {
        for &b in &shallow {
            words.push(vec![a, b]);
        }
    }
    acc.add(&format!("family {}: prior command words", name), words.len() as u64);
    let res = par_items(&words, &|_, w, acc| {
        let mut script: Vec<String> = vec![];
        for s in w {
            script.extend(symbols[*s].iter().cloned());
        }
        let prior_text = script.join(" ; ");
        script.extend(measured.iter().cloned());
        acc.states += 1;
        match uci_seq(script) {
            Err(e) => acc.violation(format!("c19-died|{}|{}", name, prior_text), format!("session died: {} [prior: {}]", e, prior_text), json::obj(vec![("kind", json::s("c19-history")), ("family", json::s(name)), ("prior", json::strs(&w.iter().flat_map(|s| symbols[*s].clone()).collect::<Vec<_>>()))])),
            Ok(t) => {
                let seg = segments(&t);
                if seg.len() != nseg {
                    acc.errors.push(format!("segment count {} != {}", seg.len(), nseg));
                    return;
                }
                for (k, (a, b)) in seg.iter().zip(base.iter()).enumerate() {
                    acc.evaluations += 1;
                    acc.transitions += 1;
                    if a != b {
                        let r = &roots[k / depths.len()];
                        let d = depths[k % depths.len()];
                        let first_diff = a.iter().zip(b.iter()).position(|(x, y)| x != y).unwrap_or(a.len().min(b.len()));
                        acc.violation(
                            format!("c19-history|{}|{}|{}|{}", name, prior_text, r.text(), d),
                            format!("after [{}] ; ucinewgame the search `{} ; go depth {}` prints a different transcript than on a fresh engine (first difference at line {}: {:?} vs fresh {:?})", prior_text, pos_cmd(r), d, first_diff, a.get(first_diff), b.get(first_diff)),
                            json::obj(vec![("kind", json::s("c19-history")), ("family", json::s(name)), ("prior", json::strs(&w.iter().flat_map(|s| symbols[*s].clone()).collect::<Vec<_>>()))]),
                        );
                        break;
                    }
                }
            }
        }
    });
    acc.merge(res);
    // (a'') commands that must be inert, between `ucinewgame` and the measured search: refused go commands (no game
    // yet), stop/wait without a search, show, refused position commands, the handshake, junk, a second ucinewgame.
    // "Right after ucinewgame" must mean the same engine state whatever was refused in between.
    let inert_all = inert_commands();
    let mut iwords: Vec<Vec<String>> = inert_all.iter().map(|x| vec![x.clone()]).collect();
    for a in ["go depth 2", "stop"] {
        for b in &inert_all {
            iwords.push(vec![a.to_string(), b.clone()]);
        }
    }
    acc.add(&format!("family {}: inert-command words between ucinewgame and the measured search", name), iwords.len() as u64);
    let strip = |seg: &Vec<String>| -> Vec<String> { seg.iter().filter(|l| !(l.starts_with("error:") || l.starts_with("id ") || l.as_str() == "uciok")).cloned().collect() };
    let base_stripped: Vec<Vec<String>> = base.iter().map(&strip).collect();
    let res2 = par_items(&iwords, &|_, w, acc| {
        let mut script = vec![];
        for r in &roots {
            for d in depths {
                script.push("ucinewgame".to_string());
                script.extend(w.iter().cloned());
                script.push("isready".to_string());
                script.push(pos_cmd(r));
                script.push(format!("go depth {}", d));
                script.push("wait".to_string());
            }
        }
        acc.states += 1;
        let wtext = w.join(" ; ");
        let replay = json::obj(vec![("kind", json::s("c19-inert")), ("family", json::s(name)), ("inert", json::strs(w))]);
        match uci_seq(script) {
            Err(e) => acc.violation(format!("c19-inert-died|{}|{}", name, wtext), format!("session died: {} [inert commands: {}]", e, wtext), replay),
            Ok(t) => {
                let seg: Vec<Vec<String>> = segments(&t).iter().map(&strip).collect();
                if seg.len() != nseg {
                    acc.violation(format!("c19-inert-segments|{}|{}", name, wtext), format!("{} answered searches instead of {} [inert commands after each ucinewgame: {}]", seg.len(), nseg, wtext), replay);
                    return;
                }
                for (k, (a, b)) in seg.iter().zip(base_stripped.iter()).enumerate() {
                    acc.evaluations += 1;
                    acc.transitions += 1;
                    if a != b {
                        let r = &roots[k / depths.len()];
                        let d = depths[k % depths.len()];
                        let first_diff = a.iter().zip(b.iter()).position(|(x, y)| x != y).unwrap_or(a.len().min(b.len()));
                        acc.violation(format!("c19-inert|{}|{}|{}|{}", name, wtext, r.text(), d), format!("`ucinewgame ; {} ; {} ; go depth {}` prints a different transcript than a fresh engine (first difference at line {}: {:?} vs fresh {:?})", wtext, pos_cmd(r), d, first_diff, a.get(first_diff), b.get(first_diff)), replay);
                        break;
                    }
                }
            }
        }
    });
    acc.merge(res2);
    if acc.samples.len() < 2 {
        acc.sample(json::obj(vec![("family", json::s(name)), ("measured", json::s(format!("for each of {} roots x depths {:?}: ucinewgame; isready; position r; go depth d; wait", roots.len(), depths))), ("example_segment", json::strs(&base[base.len() / 2]))]));
    }
}

pub fn inert_commands() -> Vec<String> {
    ["go depth 2", "go infinite", "go movetime 1", "stop", "wait", "show", "position fen 8/8 w", "position startpos moves e2e5", "uci", "xyz", "ucinewgame"].iter().map(|s| s.to_string()).collect()
}

/// digest of the fresh-engine transcripts of all families (for the cross-process comparison)
pub fn fresh_digest(tier: &str) -> String {
    let depths: Vec<u8> = if tier == "quick" { vec![1, 2, 3] } else { vec![1, 2, 3, 4] };
    let mut h: u64 = 0xcbf29ce484222325;
    for (_, root) in e3::family_roots() {
        let roots = e3::family(root);
        let t = uci_seq(measured_script(&roots, &depths)).unwrap_or_else(|e| vec![format!("DIED {}", e)]);
        for l in t {
            for b in l.bytes() {
                h ^= b as u64;
                h = h.wrapping_mul(0x100000001b3);
            }
            h ^= 0xff;
            h = h.wrapping_mul(0x100000001b3);
        }
    }
    format!("{:016x}", h)
}

/// (b) the search transcript is the same under every interleaving
pub fn schedule_invariance(bound: usize, shard: usize, nshards: usize, acc: &mut Acc) {
    let roots = [("7k/8/8/8/8/8/8/K7 w - - 0 1", 2u8), ("8/8/8/4k3/8/8/8/R3K3 w - - 0 1", 1), ("7k/5Q2/6K1/8/8/8/8/8 w - - 0 1", 2)];
    let mut scripts: Vec<c14::Script> = vec![];
    for (fen, d) in roots {
        let pos = format!("position fen {}", fen);
        let go = format!("go depth {}", d);
        scripts.push(c14::Script { name: format!("{} depth {}", fen, d), lines: vec![line(&pos, Guard::Now), line(&go, Guard::Now), line("isready", Guard::Now), line("wait", Guard::Now), line("quit", Guard::WhenAnswered)] });
        // histories ending in ucinewgame that leave a timer thread of an earlier, finished search alive: the measured
        // search must not be influenced by the moment at which that stale timer fires
        scripts.push(c14::Script { name: format!("stale timer after stop; {} depth {}", fen, d), lines: vec![line(&pos, Guard::Now), line("go movetime 1000", Guard::Now), line("stop", Guard::Now), line("ucinewgame", Guard::Now), line(&pos, Guard::Now), line(&go, Guard::Now), line("wait", Guard::Now), line("quit", Guard::WhenAnswered)] });
        scripts.push(c14::Script { name: format!("stale timer after wait; {} depth {}", fen, d), lines: vec![line(&pos, Guard::Now), line("go movetime 1000 depth 1", Guard::Now), line("wait", Guard::Now), line("ucinewgame", Guard::Now), line(&pos, Guard::Now), line(&go, Guard::Now), line("wait", Guard::Now), line("quit", Guard::WhenAnswered)] });
        // ucinewgame arriving while an unlimited search is in flight and has already filled the table
        scripts.push(c14::Script { name: format!("stale table: ucinewgame during go infinite; {} depth {}", fen, d), lines: vec![line(&pos, Guard::Now), line("go infinite", Guard::Now), line("ucinewgame", Guard::AfterInfoLines(2)), line(&pos, Guard::Now), line(&go, Guard::Now), line("wait", Guard::Now), line("quit", Guard::WhenAnswered)] });
        scripts.push(c14::Script { name: format!("stale timer after ucinewgame mid-search; {} depth {}", fen, d), lines: vec![line(&pos, Guard::Now), line("go wtime 60000 btime 60000 winc 0 binc 0", Guard::Now), line("ucinewgame", Guard::Now), line(&pos, Guard::Now), line(&go, Guard::Now), line("wait", Guard::Now), line("quit", Guard::WhenAnswered)] });
    }
    for (k, s) in scripts.into_iter().enumerate() {
        if k % nshards != shard {
            continue;
        }
        // the measured search is the LAST search of the script: compare the lines of the last search thread only
        let measured_only = s.name.starts_with("stale");
        let s = &s;
        // the reference is the fresh engine: the default schedule of `position; go depth d; wait; quit`
        let fresh: Option<Vec<String>> = {
            let goline = s.lines.iter().rev().find(|l| l.text.starts_with("go depth")).map(|l| l.text.clone()).unwrap_or_default();
            let posline = s.lines.iter().rev().find(|l| l.text.starts_with("position")).map(|l| l.text.clone()).unwrap_or_default();
            let plain = vec![line(&posline, Guard::Now), line(&goline, Guard::Now), line("wait", Guard::Now), line("quit", Guard::WhenAnswered)];
            let e = sched::run(&plain, &[], c14::HORIZON);
            if e.verdict.is_none() && e.main_ok {
                Some(e.log.iter().filter_map(|ev| if let Ev::Out(t, l) = ev { if *t != 0 { Some(l.clone()) } else { None } } else { None }).collect())
            } else {
                None
            }
        };
        let reference: std::sync::Mutex<Option<Vec<String>>> = std::sync::Mutex::new(fresh);
        let oracle = |e: &sched::Exec| -> Option<String> {
            if let Some(v) = c14::oracle(e) {
                return Some(v);
            }
            // the search thread's own lines (info ..., bestmove ...) in order
            let last_search = e.names.iter().rposition(|n| *n == "search");
            let lines: Vec<String> = e.log.iter().filter_map(|ev| if let Ev::Out(t, l) = ev { if *t != 0 && (!measured_only || Some(*t) == last_search) { Some(l.clone()) } else { None } } else { None }).collect();
            let mut r = reference.lock().unwrap();
            match &*r {
                None => {
                    *r = Some(lines);
                    None
                }
                Some(first) if *first == lines => None,
                Some(first) => Some(format!("the search prints {:?} under this schedule but {:?} on a fresh engine", lines, first)),
            }
        };
        c14::explore_script(s, bound, &oracle, "c19-e5", acc);
    }
}

pub fn run(tier: &str, seed: i64) -> Outcome {
    let _ = seed;
    let q = tier == "quick";
    let depths: Vec<u8> = if q { vec![1, 2, 3] } else { vec![1, 2, 3, 4] };
    let prior_depths: Vec<u8> = vec![1, 2, 3];
    let mut acc = Acc::new();
    let mut reports = vec![];
    for (name, root) in e3::family_roots() {
        let t0 = std::time::Instant::now();
        let before = acc.states;
        // quick tier: the two middlegame families are measured at depths 1-2 (a depth-3 search of Kiwipete costs as much as
        // the rest of a session); the thorough tier measures every family at 1-4
        let heavy = q && (name == "opening" || name == "tactical");
        let fam_depths: Vec<u8> = if heavy { vec![1, 2] } else { depths.clone() };
        family_histories(name, root, &fam_depths, &prior_depths, if q { 1 } else { 3 }, &mut acc);
        reports.push(SpaceReport { name: format!("(a) family {}: every prior word of length 1 (and of length 2 with depths <= {}) over {{position q; go depth e; wait}}, then for every root x depth {:?}: ucinewgame; position; go depth; wait", name, if q { 1 } else { 3 }, fam_depths), states: acc.states - before, exhaustive: true, note: format!("[{:.1}s]", t0.elapsed().as_secs_f64()) });
    }
    // (c) a second process
    let t1 = std::time::Instant::now();
    let mine = fresh_digest(tier);
    let w = run_workers(&self_exe(), vec![vec!["C19".into(), tier.into(), "0".into(), "--worker".into()]], 1);
    let theirs = w.notes.first().cloned().unwrap_or_default();
    acc.errors.extend(w.errors);
    if theirs != mine {
        acc.violation("c19-process", format!("the fresh-engine transcripts of all families hash to {} in this process but to {} in a second process", mine, theirs), json::obj(vec![("kind", json::s("c19-process"))]));
    } else {
        acc.count("(c) second process printed byte-identical transcripts for all fresh sessions");
    }
    reports.push(SpaceReport { name: "(c) all fresh-engine sessions once more in a second process (different address-space layout and allocator state)".into(), states: 1, exhaustive: true, note: format!("digest {} [{:.1}s]", mine, t1.elapsed().as_secs_f64()) });
    // (a3) tables that outgrow their initial capacity (a dimension the depth <= 3 searches never reach: they store a few
    // dozen entries): deep searches of quiet endgames store thousands of entries; a history of such searches, then
    // ucinewgame, then the measured deep search must still print the fresh engine's transcript
    {
        let t4 = std::time::Instant::now();
        let big: Vec<(&str, u8)> = vec![("8/8/4k3/3p4/3P1K2/8/8/5R2 w - - 0 1", if q { 9 } else { 11 }), ("8/1p4kp/p5p1/8/1P6/P3K1P1/7P/8 w - - 0 1", if q { 8 } else { 10 }), ("8/8/4k3/8/8/3K4/4P3/8 w - - 0 1", if q { 10 } else { 13 })];
        let mut cases: Vec<(usize, usize)> = vec![];
        for m in 0..big.len() {
            for pr in 0..big.len() {
                cases.push((m, pr));
            }
        }
        let res = par_items(&cases, &|_, (m, pr), acc| {
            let (mf, md) = big[*m];
            let (pf, pd) = big[*pr];
            let measured = vec![format!("position fen {}", mf), format!("go depth {}", md), "wait".to_string()];
            let fresh = match uci_seq(measured.clone()) {
                Ok(t) => t,
                Err(e) => {
                    acc.violation(format!("c19-large-died|{}", mf), format!("fresh deep session died: {}", e), json::obj(vec![("kind", json::s("c19-large"))]));
                    return;
                }
            };
            let nodes = crate::srch::info_nodes(&fresh).into_iter().max().unwrap_or(0);
            acc.max("entries stored by one deep measured search", nodes);
            // the prior game: a deep search, one more position of that game, then the reset
            let mut script = vec![format!("position fen {}", pf), format!("go depth {}", pd), "wait".to_string(), format!("position fen {}", pf), "go depth 2".to_string(), "wait".to_string(), "ucinewgame".to_string()];
            script.extend(measured.iter().cloned());
            acc.states += 1;
            let replay = json::obj(vec![("kind", json::s("c19-large")), ("measured", json::s(mf)), ("prior", json::s(pf))]);
            match uci_seq(script) {
                Err(e) => acc.violation(format!("c19-large-died|{}|{}", mf, pf), format!("session died: {}", e), replay),
                Ok(t) => {
                    acc.evaluations += 1;
                    acc.transitions += 1;
                    // the measured search's lines are the tail of the transcript
                    let tail: Vec<String> = t[t.len().saturating_sub(fresh.len())..].to_vec();
                    if tail != fresh {
                        let k = tail.iter().zip(fresh.iter()).position(|(a, b)| a != b).unwrap_or(0);
                        acc.violation(format!("c19-large|{}|{}", mf, pf), format!("after `position fen {} ; go depth {} ; wait ; go depth 2 ; wait ; ucinewgame` the search `position fen {} ; go depth {}` (which stores {} entries) prints {:?} at line {} where a fresh engine prints {:?}", pf, pd, mf, md, nodes, tail.get(k), k, fresh.get(k)), replay);
                    } else {
                        acc.count("(a3) deep searches (tables beyond the initial capacity) reproduced after a deep prior game and ucinewgame");
                    }
                }
            }
            // the real binary on the same deep search
            if *pr == 0 {
                if let Some(bin) = crate::realbin::real_bin() {
                    match crate::realbin::transcript(&bin, &measured, std::time::Duration::from_secs(600)) {
                        Ok(rt) if rt == fresh => acc.count("(a3) deep searches reproduced by the real binary"),
                        Ok(rt) => {
                            let k = rt.iter().zip(fresh.iter()).position(|(a, b)| a != b).unwrap_or(rt.len().min(fresh.len()));
                            acc.violation(format!("c19-large-real|{}", mf), format!("`position fen {} ; go depth {}` on a fresh engine: the real binary prints {:?} at line {} where the in-process engine prints {:?}", mf, md, rt.get(k), k, fresh.get(k)), json::obj(vec![("kind", json::s("c19-large"))]))
                        }
                        Err(e) => acc.violation(format!("c19-large-real-died|{}", mf), format!("the real binary failed on `position fen {} ; go depth {}`: {}", mf, md, e), json::obj(vec![("kind", json::s("c19-large"))])),
                    }
                }
            }
        });
        reports.push(SpaceReport { name: format!("(a3) large tables: {} deep searches of quiet endgames (depths {:?}) x {} deep prior games, then ucinewgame, against the fresh engine; the same deep searches on the real binary", big.len(), big.iter().map(|x| x.1).collect::<Vec<_>>(), big.len()), states: res.states, exhaustive: true, note: format!("[{:.1}s]", t4.elapsed().as_secs_f64()) });
        acc.merge(res);
    }
    // (e) the clock as an environment answer: the real binary under an LD_PRELOAD shim (tools/fastclock.c) through which
    // time runs 2000 times faster - a search of a second looks like half an hour of wall-clock time. Fixed-depth searches
    // deep enough for any "has this taken long?" rule to have an opinion must print the same transcript as under the real clock
    match (crate::realbin::real_bin(), std::env::var("VERIF_FASTCLOCK").ok().filter(|p| std::path::Path::new(p).exists())) {
        (Some(bin), Some(shim)) => {
            let t5 = std::time::Instant::now();
            let deep: Vec<(&str, u8)> = vec![("8/8/4k3/3p4/3P1K2/8/8/5R2 w - - 0 1", if q { 10 } else { 12 }), ("8/1p4kp/p5p1/8/1P6/P3K1P1/7P/8 w - - 0 1", if q { 9 } else { 11 }), ("rnbqkbnr/pppppppp/8/8/8/8/PPPPPPPP/RNBQKBNR w KQkq - 0 1", if q { 6 } else { 7 }), ("r3k2r/p1ppqpb1/bn2pnp1/3PN3/1p2P3/2N2Q1p/PPPBBPPP/R3K2R w KQkq - 0 1", if q { 5 } else { 6 })];
            let res = par_items(&deep, &|_, (fen, d), acc| {
                let script = vec![format!("position fen {}", fen), format!("go depth {}", d), "wait".to_string()];
                acc.states += 1;
                let replay = json::obj(vec![("kind", json::s("c19-clock")), ("fen", json::s(*fen)), ("depth", json::i(*d))]);
                let normal = crate::realbin::transcript(&bin, &script, std::time::Duration::from_secs(900));
                let fast = crate::realbin::transcript_env(&bin, &script, std::time::Duration::from_secs(900), &[("LD_PRELOAD", shim.clone()), ("FASTCLOCK_FACTOR", "2000".to_string())]);
                match (normal, fast) {
                    (Ok(a), Ok(b)) => {
                        acc.evaluations += 2;
                        acc.transitions += a.len() as u64;
                        if a != b {
                            let k = a.iter().zip(b.iter()).position(|(x, y)| x != y).unwrap_or(a.len().min(b.len()));
                            acc.violation(format!("c19-clock|{}", fen), format!("`position fen {} ; go depth {}` on the real binary: with the clock running 2000x faster the transcript has {} lines and differs at line {} ({:?}) from the run under the real clock ({} lines, {:?})", fen, d, b.len(), k, b.get(k), a.len(), a.get(k)), replay);
                        } else {
                            acc.count("(e) deep fixed-depth searches identical under the real and the accelerated clock");
                        }
                    }
                    (Err(e), _) | (_, Err(e)) => acc.violation(format!("c19-clock-died|{}", fen), format!("the real binary failed on `position fen {} ; go depth {}`: {}", fen, d, e), replay),
                }
            });
            reports.push(SpaceReport { name: format!("(e) accelerated clock: {} deep fixed-depth searches on the real binary, real clock vs clock_gettime running 2000x faster (LD_PRELOAD shim)", deep.len()), states: res.states, exhaustive: true, note: format!("[{:.1}s]", t5.elapsed().as_secs_f64()) });
            acc.merge(res);
        }
        _ => acc.notes.push("(e) accelerated-clock stage not run: no C compiler to build tools/fastclock.c, or no real binary".into()),
    }
    // (d) the real binary (release build of the repository itself, hooks off, real stdout): the same fresh sessions
    let t3 = std::time::Instant::now();
    match crate::realbin::real_bin() {
        None => acc.errors.push("VERIF_REAL_BIN not set or missing: the real-binary conformance stage was not run".into()),
        Some(bin) => {
            let fams = e3::family_roots();
            let res = par_items(&fams, &|_, (name, root), acc| {
                let roots = e3::family(root);
                let script = measured_script(&roots, &depths);
                let mine = match uci_seq(script.clone()) {
                    Ok(t) => segments(&t),
                    Err(_) => return, // reported by (a)
                };
                acc.states += 1;
                let replay = json::obj(vec![("kind", json::s("c19-real")), ("family", json::s(*name))]);
                for round in 0..2 {
                    match crate::realbin::transcript(&bin, &script, std::time::Duration::from_secs(300)) {
                        Err(e) => {
                            acc.violation(format!("c19-real-died|{}", name), format!("the real binary failed on the fresh sessions of family {}: {}", name, e), replay.clone());
                            return;
                        }
                        Ok(t) => {
                            let theirs = segments(&t);
                            acc.evaluations += theirs.len() as u64;
                            acc.transitions += theirs.len() as u64;
                            if theirs.len() != mine.len() {
                                acc.violation(format!("c19-real-count|{}", name), format!("the real binary answered {} searches, the in-process engine {} (family {})", theirs.len(), mine.len(), name), replay.clone());
                                return;
                            }
                            for (k, (a, b)) in theirs.iter().zip(mine.iter()).enumerate() {
                                if a != b {
                                    let r = &roots[k / depths.len()];
                                    let d = depths[k % depths.len()];
                                    let first_diff = a.iter().zip(b.iter()).position(|(x, y)| x != y).unwrap_or(a.len().min(b.len()));
                                    acc.violation(format!("c19-real|{}|{}|{}", name, r.text(), d), format!("`{} ; go depth {}` on a fresh engine: the real binary (run {}) prints {:?} at line {} where the in-process engine prints {:?}", pos_cmd(r), d, round + 1, a.get(first_diff), first_diff, b.get(first_diff)), replay.clone());
                                    return;
                                }
                            }
                        }
                    }
                }
                acc.count("(d) families whose fresh transcripts the real binary reproduced byte for byte, twice");
            });
            acc.merge(res);
            reports.push(SpaceReport { name: format!("(d) real binary {}: the fresh sessions of every family (root x depth {:?}), two processes each, compared line by line with the in-process transcripts", bin, depths), states: fams.len() as u64, exhaustive: true, note: format!("[{:.1}s]", t3.elapsed().as_secs_f64()) });
        }
    }
    // (b)
    let t2 = std::time::Instant::now();
    let nsh = 15;
    let args: Vec<Vec<String>> = (0..nsh).map(|i| vec!["C19".to_string(), tier.to_string(), "0".to_string(), "--worker".to_string(), format!("--shard={}/{}", i, nsh)]).collect();
    let a5 = run_workers(&self_exe(), args, nsh);
    reports.push(SpaceReport { name: format!("(b) E5: `position; go depth d; isready; wait; quit` and three stale-timer histories on 3 roots, all interleavings with deviation cost <= {}", if q { 2 } else { 3 }), states: a5.states, exhaustive: true, note: format!("[{:.1}s]", t2.elapsed().as_secs_f64()) });
    acc.merge(a5);
    let mut out = Outcome::new(acc, reports, "(a) through the real uci_talk: for every prior command word the transcript segments of `ucinewgame; position r; go depth d; wait` for every root and depth of the family must equal those of a fresh engine, byte for byte (info depth/score/nodes/pv and bestmove); (b) the search thread's lines are identical under every explored interleaving; (c) fresh sessions are repeated in-process and in a second process");
    out.traces_validated = out.acc.transitions;
    out.assumptions = vec!["machine load and memory layout cannot be enumerated: (c) is a two-point check; structurally the search reads no clock, no address-keyed container and no uninitialised memory (checked build)".into(), "histories up to two prior searches; depths <= 3 (4 thorough)".into()];
    out
}

pub fn replay(j: &J) -> Result<Acc, String> {
    let mut acc = Acc::new();
    match j.get("kind").and_then(|x| x.as_str()) {
        Some("c19-history") => {
            let fam = j.get("family").and_then(|x| x.as_str()).ok_or("family")?;
            let root = e3::family_roots().into_iter().find(|(n, _)| *n == fam).ok_or("unknown family")?.1;
            let prior: Vec<String> = j.get("prior").and_then(|x| x.as_arr()).map(|v| v.iter().filter_map(|s| s.as_str().map(|s| s.to_string())).collect()).unwrap_or_default();
            let roots = e3::family(root);
            let depths = vec![1u8, 2, 3];
            let measured = measured_script(&roots, &depths);
            let base = segments(&uci_seq(measured.clone())?);
            let mut script = prior.clone();
            script.extend(measured);
            let seg = segments(&uci_seq(script)?);
            for (k, (a, b)) in seg.iter().zip(base.iter()).enumerate() {
                if a != b {
                    acc.violation("c19-history", format!("segment {} ({} depth {}) differs after prior {:?}:\n  with history: {:?}\n  fresh:        {:?}", k, roots[k / 3].text(), depths[k % 3], prior, a, b), j.clone());
                    break;
                }
            }
        }
        Some("c19-inert") => {
            let fam = j.get("family").and_then(|x| x.as_str()).ok_or("family")?;
            let root = e3::family_roots().into_iter().find(|(n, _)| *n == fam).ok_or("unknown family")?.1;
            family_histories(fam, root, &[1, 2, 3], &[], 0, &mut acc);
        }
        Some("c19-real") | Some("c19-large") | Some("c19-clock") => return Ok(run("quick", 0).acc),
        Some("c19-process") => {
            let mine = fresh_digest("quick");
            let w = run_workers(&self_exe(), vec![vec!["C19".into(), "quick".into(), "0".into(), "--worker".into()]], 1);
            if w.notes.first() != Some(&mine) {
                acc.violation("c19-process", "digests differ between processes", j.clone());
            }
        }
        Some("e5-schedule") => return c14::replay(j, &c14::oracle),
        _ => return Err("unknown C19 replay kind".into()),
    }
    Ok(acc)
}
