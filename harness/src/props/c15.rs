//! C15: unchecked fast paths stay within bounds. The monitor is the checked
//! build (every get_unchecked / push_unchecked / unwrap_unchecked /
//! new_unsafe / add_unsafe carries its precondition assertion); this driver
//! goes to the capacities: the 256-move buffer, the 512-entry state stack,
//! self-play of unbounded length.
#![allow(dead_code)]

use crate::bind::*;
use crate::chess::Game;
use crate::explore::*;
use crate::json::{self, J};
use crate::props::c12::{parse_show, uci_seq, Shown};
use crate::refchess::*;
use crate::report::Outcome;
use crate::srch::*;
use crate::verif_hooks::{in_seq, SeqCtx};

pub const RECORD_218: &str = "R6R/3Q4/1Q4Q1/4Q3/2Q4Q/Q4Q2/pp1Q4/kBNN1KB1 w - - 0 1";
pub const BORDER_QUEENS: &str = "QQQQQQQk/Q6Q/Q6Q/Q6Q/Q6Q/Q6Q/Q6Q/KQQQQQQQ w - - 0 1";

pub fn catalogue() -> Vec<(String, &'static str)> {
    let mut v: Vec<(String, &'static str)> = vec![
        (RECORD_218.to_string(), "218-move record position"),
        ("3Q4/1Q4Q1/4Q3/2Q4R/Q4Q2/3Q4/1Q4Rp/1K1BBNNk w - - 0 1".to_string(), "nine queens, legal material"),
        ("Q6Q/8/2Q2Q2/8/8/2Q2Q2/6PP/Q2k2KQ w - - 0 1".to_string(), "seven queens, open board"),
        ("k7/8/1Q1Q1Q2/8/1Q1Q1Q2/8/1Q1Q1Q2/7K w - - 0 1".to_string(), "nine queens on a grid"),
        ("8/1q1q1q2/8/1q1q1q2/8/1q1q1q2/8/K6k b - - 0 1".to_string(), "nine black queens on a grid"),
        ("rnbqkbnr/pppppppp/8/8/8/8/PPPPPPPP/RNBQKBNR w KQkq - 0 1".to_string(), "start position"),
        ("r3k2r/p1ppqpb1/bn2pnp1/3PN3/1p2P3/2N2Q1p/PPPBBPPP/R3K2R w KQkq - 0 1".to_string(), "kiwipete"),
    ];
    // pawns on their own last / first rank (the reader accepts them): every file, both colours, both ranks
    for f in 0..8i8 {
        for (c, r) in [(code(P, true), 7i8), (code(P, true), 0), (code(P, false), 0), (code(P, false), 7)] {
            let mut p = Pos::empty();
            p.b[sq(3, 4) as usize] = WK;
            p.b[sq(5, 1) as usize] = BK;
            if p.b[sq(r, f) as usize] != 0 {
                continue;
            }
            p.b[sq(r, f) as usize] = c;
            v.push((p.fen6(false), "pawn on a back rank"));
        }
    }
    // castling rights that the board does not support (the reader takes the field at face value: stale rights, X-FEN /
    // Chess960 set-ups): every non-empty rights subset x the white king on every square x the black king on three
    // squares x {no rooks, rooks on the four corners}; and the colour mirror
    for wk in 0..64u8 {
        for bk in [sq(7, 4), sq(7, 7), sq(4, 0)] {
            if wk == bk || crate::universe::adjacent(wk, bk) {
                continue;
            }
            for rooks in [false, true] {
                let mut p = Pos::empty();
                p.b[wk as usize] = WK;
                p.b[bk as usize] = BK;
                if rooks {
                    for (s, c) in [(sq(0, 0), code(R, true)), (sq(0, 7), code(R, true)), (sq(7, 0), code(R, false)), (sq(7, 7), code(R, false))] {
                        if p.b[s as usize] == 0 {
                            p.b[s as usize] = c;
                        }
                    }
                }
                for rights in 1..16u8 {
                    p.rights = rights;
                    v.push((p.fen6(false), "castling rights the board does not support"));
                    v.push((p.mirror().fen6(false), "castling rights the board does not support"));
                }
            }
        }
    }
    // border-queen family: every prefix of the 26 free border squares filled with white queens
    let border: Vec<u8> = {
        let mut b = vec![];
        for f in 0..8 {
            b.push(sq(7, f));
        }
        for r in (1..7).rev() {
            b.push(sq(r, 7));
        }
        for f in (0..8).rev() {
            b.push(sq(0, f));
        }
        for r in 1..7 {
            b.push(sq(r, 0));
        }
        b
    };
    for n in 1..=26 {
        let mut p = Pos::empty();
        p.b[sq(0, 0) as usize] = WK;
        p.b[sq(7, 7) as usize] = BK;
        let mut placed = 0;
        for &s in &border {
            if p.b[s as usize] != 0 {
                continue;
            }
            if placed == n {
                break;
            }
            p.b[s as usize] = code(Q, true);
            placed += 1;
        }
        for white in [true, false] {
            p.white = white;
            v.push((p.fen6(false), "border-queen family (super-legal material)"));
        }
    }
    v
}

/// Capacity sweep of the 256-move buffer: for several "tail structures" (what the generator emits around the moment the
/// buffer fills up: promoting pawns with and without captures, knights, rooks/bishops, the king) the 48 squares of
/// ranks 1-6 are filled by a deterministic hill-climb (model pseudo-legal count as the guide) so that the number of
/// pseudo-legal moves of the side to move takes every value of 236..=300: the buffer boundary falls at every offset
/// inside every kind of per-piece batch. Both colours (mirror). These are positions the FEN reader accepts.
pub fn capacity_sweep(lo: usize, hi: usize) -> (Vec<(String, &'static str)>, Vec<String>) {
    let mut notes = vec![];
    let skeletons: [(&str, &str); 13] = [
        ("1r1r1r1k", "PQPQPQP1"),
        ("QrQrQr1k", "QPQPQPQ1"),
        ("r1rQr1Qk", "1PQ1PQQ1"),
        ("QQQr1rQk", "QQQQPQQ1"),
        ("1rQQQQQk", "PQQQQQQ1"),
        ("QQQQQr1k", "QQQQQQPQ"),
        ("7k", "PPPPPPP1"),
        ("r1r1r1rk", "1P1P1P2"),
        ("nrnrnr1k", "PPPPPP2"),
        ("NNNNNN1k", "NNNNNN2"),
        ("RBRBRB1k", "BRBRBR2"),
        ("6K1", "7k"),
        ("QQQQQQ1k", "QQQQQQ2"),
    ];
    let mut out = vec![];
    for (r8, r7) in skeletons {
        let Ok(sk) = parse_fen(&format!("{}/{}/8/8/8/8/8/8 w - - 0 1", r8, r7)) else { continue };
        let mut base = sk.pos;
        let has_wk = base.b.iter().any(|&c| c == WK);
        if !has_wk {
            base.b[sq(0, 0) as usize] = WK;
        }
        let free: Vec<u8> = (0..48u8).filter(|s| base.b[*s as usize] == 0).collect();
        let count = |p: &Pos| p.pseudo_legal().len();
        // walk the count down from the fullest board, and up from the emptiest, always by the smallest possible step
        // (single-square change); every visited position whose count lies in lo..=hi is a member
        let opts = [code(Q, true), code(R, true), code(B, true), code(N, true), code(P, true), code(P, false), 0u8];
        let step_to = |cur: &Pos, largest: bool, up: bool| -> Option<(u8, u8)> {
            let c = count(cur) as i64;
            let mut best: Option<(i64, u8, u8)> = None;
            for &sqr in &free {
                for &o in &opts {
                    if cur.b[sqr as usize] == o || (o != 0 && kind_of(o) == P && !(1..7).contains(&rank_of(sqr))) {
                        continue;
                    }
                    let mut q = *cur;
                    q.b[sqr as usize] = o;
                    let d = count(&q) as i64 - c;
                    let step = if up { d } else { -d };
                    if step >= 1 && best.map_or(true, |(bs, _, _)| if largest { step > bs } else { step < bs }) {
                        best = Some((step, sqr, o));
                    }
                }
            }
            best.map(|(_, a, b)| (a, b))
        };
        // phase 1: climb by the largest step to the most mobile filling (or just past `hi`);
        // phase 2: come down by the smallest step; every visited count in lo..=hi yields a member
        let mut cur = base;
        // seed: queens along the lower border (the shape of the most mobile known fillings), then climb
        for &sqr in &free {
            if rank_of(sqr) == 0 || file_of(sqr) == 0 || file_of(sqr) == 7 {
                cur.b[sqr as usize] = code(Q, true);
            }
        }
        for _ in 0..200 {
            if count(&cur) > hi + 8 {
                break;
            }
            match step_to(&cur, true, true) {
                Some((sqr, o)) => cur.b[sqr as usize] = o,
                None => break,
            }
        }
        let peak = count(&cur);
        let mut seen_counts = std::collections::BTreeSet::new();
        for _ in 0..400 {
            let c = count(&cur);
            if (lo..=hi).contains(&c) && seen_counts.insert(c) {
                out.push((cur.fen6(false), "capacity sweep"));
                out.push((cur.mirror().fen6(false), "capacity sweep"));
            }
            if c < lo {
                break;
            }
            match step_to(&cur, false, false) {
                Some((sqr, o)) => cur.b[sqr as usize] = o,
                None => break,
            }
        }
        notes.push(format!("capacity sweep, tail structure {}/{}: most mobile filling has {} pseudo-legal moves; {} distinct counts in {}..={} realised", r8, r7, peak, seen_counts.len(), lo, hi));
    }
    (out, notes)
}

/// Is this panic one of the checks that guard a skipped bounds check? (unsafe-precondition, arrayvec capacity,
/// Position validity assert, index out of bounds, or arithmetic overflow inside Position arithmetic)
pub fn bounds_related(text: &str) -> bool {
    let arithmetic = text.contains("attempt to add with overflow") || text.contains("attempt to subtract with overflow") || text.contains("attempt to multiply with overflow") || text.contains("attempt to negate with overflow");
    if arithmetic {
        return text.contains("position.rs") || text.contains("gamestate.rs");
    }
    true
}

fn legal_material(p: &Pos) -> bool {
    for white in [true, false] {
        let cnt = |k: u8| p.b.iter().filter(|&&c| c == code(k, white)).count() as i32;
        let pawns = cnt(P);
        let promoted = (cnt(Q) - 1).max(0) + (cnt(R) - 2).max(0) + (cnt(B) - 2).max(0) + (cnt(N) - 2).max(0);
        if cnt(K) != 1 || pawns > 8 || promoted > 8 - pawns {
            return false;
        }
    }
    true
}

/// generate both lists for both sides to move in a position given as text; panics are verdicts
pub fn mobility_case(fen: &str, why: &str, acc: &mut Acc) {
    acc.evaluations += 1;
    let Ok(parsed) = parse_fen(fen) else { return };
    for white in [true, false] {
        let mut p = parsed.pos;
        p.white = white;
        p.ep = None;
        let text = p.fen6(false);
        let g = match guarded(|| Game::new(&text)) {
            Ok(Ok(g)) => g,
            Ok(Err(_)) => {
                acc.count("positions the reader refuses (nothing to generate)");
                continue;
            }
            Err(pn) => {
                acc.count("reader panics (C17's business)");
                let _ = pn;
                continue;
            }
        };
        acc.states += 1;
        let mut g2 = g.clone();
        let r = guarded(|| {
            let a = moves(&mut g2, false).len();
            let b = moves(&mut g2, true).len();
            (a, b)
        });
        acc.transitions += 1;
        if r.is_ok() && (why == "pawn on a back rank" || why == "castling rights the board does not support") {
            let mut t = new_table();
            let run = run_search(&g, &mut t, &SearchCfg { max_depth: Some(2), stop_at: u64::MAX, depth_monitor: u32::MAX, watchdog: 2_000_000, tableless: false });
            if let Err(pn) = &run.result {
                if bounds_related(pn) {
                    acc.violation(format!("movebuf-search|{}", text), format!("a depth-2 search of a position the FEN reader accepts overran a fast path: {} [{} ({})]", pn, text, why), json::obj(vec![("kind", json::s("c15-mobility")), ("fen", json::s(text.clone()))]));
                }
            }
        }
        match r {
            Ok((a, b)) => {
                acc.max("longest unchecked move list", a as u64);
                acc.max("longest checked move list", b as u64);
                if legal_material(&p) {
                    acc.max("longest unchecked move list (legal material)", a as u64);
                }
                acc.outcome(if a > 200 { "list > 200" } else if a > 100 { "list > 100" } else { "list <= 100" });
            }
            Err(pn) if !bounds_related(&pn) => {
                // 16-bit score arithmetic overflowing on super-legal material is not a bounds matter (wraps in release, no memory is touched)
                acc.count("arithmetic overflow of the 16-bit score on super-legal material (not a fast-path bound; not judged here)");
            }
            Err(pn) => {
                acc.outcome("move buffer overrun");
                acc.violation(format!("movebuf|{}", text), format!("generating moves in a position the FEN reader accepts overran a fast path: {} [{} ({})]", pn, text, why), json::obj(vec![("kind", json::s("c15-mobility")), ("fen", json::s(text.clone()))]));
            }
        }
    }
}

pub fn edits(fen: &str, two: bool) -> Vec<String> {
    let Ok(p) = parse_fen(fen) else { return vec![] };
    let p = p.pos;
    let mut out = vec![];
    for s in 0..64u8 {
        if p.b[s as usize] == WK || p.b[s as usize] == BK {
            continue;
        }
        for c in 0..=12u8 {
            if c == WK || c == BK || c == p.b[s as usize] {
                continue;
            }
            // pawns on the first / eighth rank are included: the FEN reader accepts them
            let mut q = p;
            q.b[s as usize] = c;
            out.push(q.fen6(false));
            if two {
                // second edit restricted to 16 central/edge squares and to the heavy pieces
                for s2 in [0u8, 7, 56, 63, 27, 28, 35, 36, 3, 4, 59, 60, 24, 31, 32, 39] {
                    if s2 <= s || q.b[s2 as usize] == WK || q.b[s2 as usize] == BK {
                        continue;
                    }
                    for c2 in [0u8, code(Q, true), code(Q, false)] {
                        if c2 == q.b[s2 as usize] {
                            continue;
                        }
                        let mut r = q;
                        r.b[s2 as usize] = c2;
                        out.push(r.fen6(false));
                    }
                }
            }
        }
    }
    out
}

/// king-shuffle game of `plies` plies through the real `position` command; returns (accepted, shown fen)
pub fn long_game_script(root: &str, shuffle: [&str; 4], plies: usize) -> (String, Vec<String>) {
    let mv: Vec<String> = (0..plies).map(|i| shuffle[i % 4].to_string()).collect();
    (format!("position fen {} moves {}", root, mv.join(" ")), mv)
}

pub fn stack_cases(tier: &str, acc: &mut Acc) {
    let q = tier == "quick";
    let roots: Vec<(&str, [&str; 4])> = vec![
        ("7k/8/8/8/8/8/8/K7 w - - 0 1", ["a1b1", "h8g8", "b1a1", "g8h8"]),
        ("rnbqkbnr/pppppppp/8/8/8/8/PPPPPPPP/RNBQKBNR w KQkq - 0 1", ["g1f3", "g8f6", "f3g1", "f6g8"]),
        ("k7/8/8/p1p1p1p1/P1P1P1P1/8/8/K7 w - - 0 1", ["a1b1", "a8b8", "b1a1", "b8a8"]),
        // cornered king: the search deepens fastest here (depth 30+ within a second), so the deepest plies are reached from a long game
        ("k7/2K5/8/8/8/8/8/8 w - - 0 1", ["c7c8", "a8a7", "c8c7", "a7a8"]),
        // forced lines: everything is locked, each king owns a two-square cage; after a4-a5 (resp. a5-a4) both sides have
        // exactly one legal move on every ply for ever - extensions that "cost no depth" on forced replies never stop here
        ("5b1k/4pPp1/p3P1p1/6P1/P5p1/4p1P1/4PpP1/5B1K w - - 0 1", ["h1h2", "h8h7", "h2h1", "h7h8"]),
        ("5b1k/4pPp1/4P1p1/p5P1/6p1/P3p1P1/4PpP1/5B1K b - - 0 1", ["h8h7", "h1h2", "h7h8", "h2h1"]),
    ];
    for (root, shuffle) in roots {
        for plies in [1usize, 2, 397, 398, 399, 400] {
            let (cmd, mv) = long_game_script(root, shuffle, plies);
            acc.evaluations += 1;
            let t = match uci_seq(vec![cmd.clone(), "show".into(), "isready".into()]) {
                Ok(t) => t,
                Err(e) => {
                    acc.violation(format!("longgame|{}|{}", root, plies), format!("`position` with {} plies killed the session: {}", plies, e), json::obj(vec![("kind", json::s("c15-stack")), ("root", json::s(root)), ("plies", json::i(plies))]));
                    continue;
                }
            };
            let accepted = !t.iter().any(|l| l.starts_with("error:") && !l.contains("No game to show"));
            acc.outcome(format!("game of {} plies {}", plies, if accepted { "accepted" } else { "refused" }));
            if !accepted {
                acc.count("games refused by the interface's length guard");
                continue;
            }
            acc.count("games accepted by the interface");
            // the same game built directly (Game::new + push_history, as command_position does), then searched
            let spec = RootSpec { fen: root.to_string(), history: mv.clone() };
            let Ok((game, pos)) = spec.build() else {
                acc.errors.push(format!("cannot rebuild the {}-ply game", plies));
                continue;
            };
            acc.max("longest accepted game (state-stack entries before the search)", game.len() as u64);
            let legal = pos.legal_uci_sorted();
            let mut runs: Vec<(Option<u8>, u64)> = vec![(None, 10_000), (Some(1), 1_000_000), (Some(34), 200_000), (Some(64), 200_000), (Some(255), 200_000)];
            if !q {
                runs.push((None, 1_000_000));
                runs.push((Some(112), 1_000_000));
                runs.push((Some(113), 1_000_000));
                runs.push((Some(114), 1_000_000));
            }
            for (d, wd) in runs {
                let mut table = new_table();
                let run = run_search(&game, &mut table, &SearchCfg { max_depth: d, stop_at: u64::MAX, depth_monitor: u32::MAX, watchdog: wd, tableless: false });
                acc.states += 1;
                acc.transitions += 1;
                acc.max("deepest iteration reached from a long game", run.max_iter_depth as u64);
                acc.max("state-stack entries at the deepest interior node (game length + ply)", game.len() as u64 + run.max_real_depth as u64);
                match &run.result {
                    Err(p) if !bounds_related(p) => acc.count("arithmetic overflow in a search from a long game (not a fast-path bound; C08's business)"),
                    Err(p) => acc.violation(format!("stack|{}|{}|{:?}", root, plies, d), format!("search from a game of {} plies (depth limit {:?}, {} polls) overran a fast path: {}", plies, d, wd, p), json::obj(vec![("kind", json::s("c15-stack")), ("root", json::s(root)), ("plies", json::i(plies)), ("depth", d.map_or(J::Null, |d| json::i(d))), ("watchdog", json::i(wd))])),
                    Ok(Some(m)) if !legal.contains(m) => acc.violation(format!("stack-illegal|{}|{}", root, plies), format!("illegal move {} announced from a long game", m), J::Null),
                    _ => {}
                }
            }
        }
    }
}

/// worker: self-play with a poll budget per move, until the game ends by itself or the horizon is passed
pub fn autoplay_worker(budget: u64, horizon: u64) -> Acc {
    let mut acc = Acc::new();
    let mut ctx = SeqCtx::new();
    ctx.per_search_budget = budget;
    ctx.autoplay_horizon = horizon;
    let (r, ctx) = in_seq(ctx, || guarded(|| crate::autoplay::autoplay(1_000_000_000_000)));
    acc.states += 1;
    acc.evaluations += ctx.searches_seen;
    acc.transitions += ctx.searches_seen;
    acc.max("self-play moves searched", ctx.searches_seen);
    match r {
        Ok(()) => {
            acc.outcome("self-play ended by itself");
            acc.add(&format!("budget {}: self-play ended by itself after this many searches", budget), ctx.searches_seen);
        }
        Err(p) if p.contains("VERIF-HORIZON") => {
            acc.outcome("self-play still going at the horizon");
            acc.add(&format!("budget {}: horizon of {} searches passed without an overrun", budget, horizon), 1);
        }
        Err(p) => {
            acc.outcome("self-play overran");
            acc.violation(format!("autoplay|{}", budget), format!("self-play with {} polls per move died after {} searches: {}", budget, ctx.searches_seen, p), json::obj(vec![("kind", json::s("c15-autoplay")), ("budget", json::i(budget)), ("horizon", json::i(horizon))]));
        }
    }
    acc
}

/// Searches from positions whose FEN carries non-trivial move counters, and from positions reached by long reversible
/// play: anything the engine indexes by a counter of the game (a history of hashes, a clock, a record) meets values
/// there that the `0 1` of every other root never produces. The checked build is the monitor; only panics that guard a
/// skipped bounds check are judged here.
pub fn counter_searches(acc: &mut Acc) -> SpaceReport {
    let t0 = std::time::Instant::now();
    let roots = crate::props::e3::counter_roots();
    let a = par_items(&roots, &|_, spec, acc| {
        let Ok((game, _)) = spec.build() else {
            acc.count("counter roots that could not be built (reported elsewhere)");
            return;
        };
        acc.states += 1;
        for d in 1..=4u8 {
            acc.evaluations += 1;
            acc.transitions += 1;
            let mut t = new_table();
            let run = run_search(&game, &mut t, &SearchCfg { max_depth: Some(d), stop_at: u64::MAX, depth_monitor: u32::MAX, watchdog: 3_000_000, tableless: false });
            if let Err(pn) = &run.result {
                if bounds_related(pn) {
                    acc.violation(format!("counter-search|{}|{}", spec.text(), d), format!("a depth-{} search overran a fast path: {} [{}]", d, pn, spec.text()), json::obj(vec![("kind", json::s("c15-counter")), ("fen", json::s(spec.fen.clone())), ("history", json::s(spec.history.join(" "))), ("depth", json::i(d))]));
                    break;
                }
            }
        }
    });
    let n = a.states;
    acc.merge(a);
    SpaceReport { name: format!("searches (depths 1..=4) from {} roots with FEN move counters on a boundary grid or after reversible shuffles of 96..=104 / 196..=201 plies", roots.len()), states: n, exhaustive: true, note: format!("[{:.1}s]", t0.elapsed().as_secs_f64()) }
}

pub fn run(tier: &str, seed: i64) -> Outcome {
    let _ = seed;
    let q = tier == "quick";
    let t0 = std::time::Instant::now();
    // (1) 256-move buffer
    let cat = catalogue();
    let mut strings: Vec<(String, &'static str)> = vec![];
    for (f, why) in &cat {
        strings.push((f.clone(), *why));
        if *why == "castling rights the board does not support" {
            continue;
        }
        let two = !q && (*why == "218-move record position" || *why == "nine queens, legal material");
        for e in edits(f, two) {
            strings.push((e, *why));
        }
    }
    let (sweep, sweep_notes) = match guarded(|| capacity_sweep(236, 300)) {
        Ok(v) => v,
        Err(e) => {
            let mut a = Acc::new();
            a.errors.push(format!("capacity sweep construction panicked (harness): {}", e));
            return Outcome::new(a, vec![], "");
        }
    };
    let nsweep = sweep.len();
    strings.extend(sweep);
    strings.sort();
    strings.dedup();
    let mut acc1 = par_items(&strings, &|_, (f, why), acc| mobility_case(f, why, acc));
    acc1.add("capacity-sweep positions (13 tail structures x pseudo-legal counts 236..=300 x both colours)", nsweep as u64);
    acc1.notes.extend(sweep_notes);
    let mut reports = vec![SpaceReport { name: format!("mobility catalogue M: {} base positions and their complete 1-edit neighbourhoods{}: {} texts x both sides to move", cat.len(), if q { "" } else { " (2-edit on 16 squares for two bases)" }, strings.len()), states: acc1.states, exhaustive: true, note: format!("[{:.1}s]", t0.elapsed().as_secs_f64()) }];
    let mut acc = acc1;
    // (2) state stack
    let t1 = std::time::Instant::now();
    let mut a2 = Acc::new();
    stack_cases(tier, &mut a2);
    reports.push(SpaceReport { name: "state stack: games of 1, 2, 397..400 plies through the real `position` command x 4 roots, then unlimited and depth-limited (1, 34, 64, 255[, 112..114]) searches".into(), states: a2.states, exhaustive: true, note: format!("[{:.1}s]", t1.elapsed().as_secs_f64()) });
    acc.merge(a2);
    let r = counter_searches(&mut acc);
    reports.push(r);
    // (3) self-play in worker processes
    let t2 = std::time::Instant::now();
    let budgets: Vec<u64> = if q { vec![1, 50] } else { vec![1, 50, 1000] };
    let horizon = 620u64;
    let args: Vec<Vec<String>> = budgets.iter().map(|b| vec!["C15".to_string(), tier.to_string(), "0".to_string(), "--worker".to_string(), format!("--autoplay={}/{}", b, horizon)]).collect();
    let a3 = run_workers(&self_exe(), args, budgets.len());
    reports.push(SpaceReport { name: format!("self-play (the real autoplay loop) with poll budgets {:?} per move, horizon {} moves (past the 512-entry state stack)", budgets, horizon), states: a3.states, exhaustive: true, note: format!("[{:.1}s]", t2.elapsed().as_secs_f64()) });
    acc.merge(a3);
    // (4) the real binary's own self-play command (`rustybait auto <ms>`, real timer threads): must end by itself with
    // exit status 0 and without a panic message, whatever depth the searches reach in the time given
    match crate::realbin::real_bin() {
        None => acc.errors.push("VERIF_REAL_BIN not set or missing: the real self-play stage was not run".into()),
        Some(bin) => {
            let t3 = std::time::Instant::now();
            let ms: Vec<u64> = if q { vec![0, 1] } else { vec![0, 1, 5, 20] };
            let res = par_items(&ms, &|_, m, acc| {
                acc.states += 1;
                acc.evaluations += 1;
                let replay = json::obj(vec![("kind", json::s("c15-real-auto")), ("ms", json::i(*m))]);
                let child = std::process::Command::new(&bin).arg("auto").arg(m.to_string()).stdin(std::process::Stdio::null()).stdout(std::process::Stdio::piped()).stderr(std::process::Stdio::piped()).spawn();
                let Ok(child) = child else {
                    acc.errors.push(format!("cannot run {}", bin));
                    return;
                };
                // self-play is bounded by 400 plies x (ms + search wind-down); 600 s is far beyond that
                let (tx, rx) = std::sync::mpsc::channel();
                std::thread::spawn(move || {
                    let _ = tx.send(child.wait_with_output());
                });
                match rx.recv_timeout(std::time::Duration::from_secs(600)) {
                    Ok(Ok(o)) => {
                        let err = String::from_utf8_lossy(&o.stderr).to_string();
                        let plies = String::from_utf8_lossy(&o.stdout).lines().filter(|l| l.starts_with("Hash:")).count();
                        acc.max("positions printed by one real self-play game", plies as u64);
                        acc.transitions += plies as u64;
                        if !o.status.success() || err.contains("panicked") {
                            acc.violation(format!("real-auto|{}", m), format!("`rustybait auto {}` ended with status {:?} after {} positions: {}", m, o.status.code(), plies, err.lines().filter(|l| l.contains("panicked") || l.contains("overflow") || l.contains("bounds")).next().unwrap_or(err.lines().last().unwrap_or(""))), replay);
                        } else {
                            acc.outcome("real self-play ended cleanly");
                        }
                    }
                    Ok(Err(e)) => acc.errors.push(format!("waiting for the self-play process failed: {}", e)),
                    Err(_) => acc.violation(format!("real-auto-hang|{}", m), format!("`rustybait auto {}` did not end within 600 s", m), replay),
                }
            });
            reports.push(SpaceReport { name: format!("real binary {}: `auto <ms>` self-play for ms in {:?} (real timer threads), exit status and panic text", bin, ms), states: res.states, exhaustive: true, note: format!("[{:.1}s]", t3.elapsed().as_secs_f64()) });
            acc.merge(res);
        }
    }
    if acc.samples.is_empty() {
        acc.sample(json::obj(vec![("mobility_base", json::s(RECORD_218)), ("long_game", json::s("position fen 7k/8/8/8/8/8/8/K7 w - - 0 1 moves a1b1 h8g8 b1a1 g8h8 ... (398 plies)")), ("self_play", json::s("autoplay with 1 / 50 polls per move"))]));
    }
    let mut out = Outcome::new(acc, reports, "checked build = monitor (all unsafe-precondition, debug_assert, arrayvec-capacity, bounds and overflow checks live in every exploration of every property); this driver enumerates the capacity corners: every member of the mobility catalogue and of its complete 1-edit neighbourhood (both lists, both sides); every game length around the interface's limit followed by searches of every listed depth; self-play until it ends or passes the horizon");
    out.traces_validated = out.acc.transitions;
    out.assumptions = vec![
        "positions with legal material are assumed to have at most 256 pseudo-legal moves; the largest list measured over the catalogue and its neighbourhood is reported (maxima)".into(),
        "undefined behaviour is observed where the code, std or arrayvec assert a precondition; UB with no assertion in front of it would be invisible".into(),
        "state stack: 399 (longest accepted game) + 64 (MAX_SEARCH_DEPTH) + capture/promotion extension (< 48) < 512 is argued, exercised up to the depths the roots allow".into(),
    ];
    out
}

pub fn replay(j: &J) -> Result<Acc, String> {
    let mut acc = Acc::new();
    match j.get("kind").and_then(|x| x.as_str()) {
        Some("c15-mobility") => mobility_case(j.get("fen").and_then(|x| x.as_str()).ok_or("fen")?, "replay", &mut acc),
        Some("c15-stack") => stack_cases("quick", &mut acc),
        Some("c15-counter") => {
            let _ = counter_searches(&mut acc);
        }
        Some("c15-real-auto") => return Ok(run("quick", 0).acc),
        Some("c15-autoplay") => {
            let b = j.get("budget").and_then(|x| x.as_i()).unwrap_or(1) as u64;
            let h = j.get("horizon").and_then(|x| x.as_i()).unwrap_or(620) as u64;
            let w = run_workers(&self_exe(), vec![vec!["C15".into(), "quick".into(), "0".into(), "--worker".into(), format!("--autoplay={}/{}", b, h)]], 1);
            acc.merge(w);
        }
        _ => return Err("unknown C15 replay kind".into()),
    }
    let _ = (parse_show as fn(&str) -> Shown, load as fn(&Pos) -> Result<Game, String>);
    Ok(acc)
}
