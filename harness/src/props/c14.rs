//! C14: each `go` gets exactly one `bestmove`; the session never wedges or dies.
//! E5 exploration of the real uci_talk + search thread + timer thread under
//! the baton scheduler, all interleavings up to a preemption bound.
#![allow(dead_code)]

use crate::explore::*;
use crate::json::{self, J};
use crate::refchess::*;
use crate::report::Outcome;
use crate::sched::{self, line, Ev, Exec, Guard, Line};

pub const P0: &str = "7k/8/8/8/8/8/8/K7 w - - 0 1";
pub const P1: &str = "k7/8/8/8/8/8/8/7K b - - 0 1";

pub fn alphabet() -> Vec<&'static str> {
    vec!["isready", "ucinewgame", "position P1", "go depth 1", "go movetime 1", "go infinite", "stop", "wait", "show"]
}

fn expand(cmd: &str) -> String {
    cmd.replace("P1", &format!("fen {}", P1)).replace("P0", &format!("fen {}", P0))
}

/// GUI misuse: `wait` while an unstopped `go infinite` is (or may be) outstanding
fn misuse(word: &[&str]) -> bool {
    let mut infinite_outstanding = false;
    for c in word {
        match *c {
            "go infinite" => infinite_outstanding = true,
            "stop" | "ucinewgame" => infinite_outstanding = false,
            "wait" if infinite_outstanding => return true,
            _ => {}
        }
    }
    false
}

#[derive(Clone, Debug)]
pub struct Script {
    pub name: String,
    pub lines: Vec<Line>,
}

pub fn word_script(word: &[&str], reactive: bool) -> Script {
    let mut lines = vec![line(&expand("position P0"), if reactive { Guard::WhenAnswered } else { Guard::Now })];
    for c in word {
        lines.push(line(&expand(c), if reactive { Guard::WhenAnswered } else { Guard::Now }));
    }
    // quit: when everything due has been answered (an unstopped `go infinite` is not due)
    lines.push(line("quit", Guard::WhenAnswered));
    Script { name: format!("{} [{}]", word.join("; "), if reactive { "reactive GUI" } else { "eager GUI" }), lines }
}

pub fn scenarios() -> Vec<Script> {
    let p0 = expand("position P0");
    let p1 = expand("position P1");
    let n = |t: &str| line(t, Guard::Now);
    let w = |t: &str| line(t, Guard::WhenAnswered);
    vec![
        Script { name: "timer vs flag raise: go movetime 0".into(), lines: vec![n(&p0), n("go movetime 0"), w("quit")] },
        Script { name: "stop at thread start".into(), lines: vec![n(&p0), n("go infinite"), n("stop"), w("quit")] },
        Script { name: "command between bestmove and flag reset".into(), lines: vec![n(&p0), n("go depth 1"), w(&p1), w("go depth 1"), w("quit")] },
        Script { name: "go again after a self-terminated search whose timer is still pending".into(), lines: vec![n(&p0), n("go movetime 1 depth 1"), w(&p1), w("go infinite"), n("isready"), n("stop"), w("quit")] },
        // the three "live timer" scripts are explored with the sleeping-timer cost model (sched.rs); kept short, their
        // schedule count grows by two orders of magnitude
        Script { name: "live timer of a finished search, then an unlimited search".into(), lines: vec![n(&p0), n("go movetime 1 depth 1"), w(&p1), w("go infinite"), n("stop"), w("quit")] },
        Script { name: "live timer of a stopped search, then an unlimited search".into(), lines: vec![n(&p0), n("go movetime 1"), n("stop"), w(&p1), w("go infinite"), n("stop"), w("quit")] },
        Script { name: "live timer of a finished search, then a depth-limited search".into(), lines: vec![n(&p0), n("go movetime 1 depth 1"), w(&p1), w("go depth 1"), w("quit")] },
        Script { name: "ucinewgame mid-search".into(), lines: vec![n(&p0), n("go infinite"), n("ucinewgame"), w(&p1), w("go depth 1"), w("quit")] },
        Script { name: "quit mid-search".into(), lines: vec![n(&p0), n("go infinite"), n("quit")] },
        // a `go` on a finished game (the side to move is checkmated / stalemated) is answered with `bestmove none`; the
        // session must then be as ready for the next game as after any other answer
        Script { name: "go on a checkmated position, then the next game".into(), lines: vec![n("position fen 7k/6Q1/6K1/8/8/8/8/8 b - - 0 1"), n("go depth 2"), w(&p1), w("go depth 1"), w("show"), w("quit")] },
        Script { name: "go on a stalemated position, then the next game".into(), lines: vec![n("position fen 7k/5Q2/6K1/8/8/8/8/8 b - - 0 1"), n("go movetime 1"), w(&p1), w("go depth 1"), w("quit")] },
        // the engine must leave on `quit` / end of input also when the search it abandons has a limit of its own that
        // is far away (a depth it will not reach for hours): nobody is left to stop it, so waiting for it is a hang
        Script { name: "quit during a depth-limited search far from its limit".into(), lines: vec![n("position startpos"), n("go depth 40"), n("quit")] },
        Script { name: "end of input during a depth-limited search far from its limit".into(), lines: vec![n("position startpos"), n("go depth 40"), n("<EOF>")] },
        Script { name: "clock go, then the next move of the game".into(), lines: vec![n(&p0), n("go wtime 1000 btime 1000 winc 0 binc 0"), w(&p1), w("go wtime 900 btime 1000 winc 0 binc 0"), w("quit")] },
        Script { name: "isready while searching, twice".into(), lines: vec![n(&p0), n("go infinite"), n("isready"), n("isready"), n("stop"), w("quit")] },
        Script { name: "wait then position and go".into(), lines: vec![n(&p0), n("go depth 1"), n("wait"), n(&p1), n("go depth 1"), n("wait"), w("quit")] },
        Script { name: "end of input instead of quit".into(), lines: vec![n(&p0), n("go depth 1")] },
    ]
}

pub fn all_scripts(tier: &str) -> Vec<Script> {
    let a = alphabet();
    let quick = tier == "quick";
    let maxlen = if tier == "quick" { 3 } else { 4 };
    let mut words: Vec<Vec<&str>> = vec![vec![]];
    let mut out = vec![];
    for _ in 0..maxlen {
        let mut next = vec![];
        for w in &words {
            for c in &a {
                let mut x = w.clone();
                x.push(*c);
                next.push(x);
            }
        }
        for w in &next {
            if !misuse(w) {
                out.push(w.clone());
            }
        }
        words = next;
    }
    // the costliest sleeping-timer scenario (~22 k schedules at bound 2) is left to the thorough tier
    let mut scripts: Vec<Script> = scenarios().into_iter().filter(|s| !(quick && s.name.starts_with("live timer of a stopped search"))).collect();
    for w in &out {
        scripts.push(word_script(w, false));
        scripts.push(word_script(w, true));
    }
    scripts
}

fn legal_in(fen: &str) -> Vec<String> {
    parse_fen_strict(fen).map(|p| p.pos.legal_uci_sorted()).unwrap_or_default()
}

/// The C14 oracle on one complete execution (transcript + events + thread states)
pub fn oracle(e: &Exec) -> Option<String> {
    if let Some(t) = e.panicked.first() {
        return Some(format!("panic in thread '{}'", t));
    }
    if !e.main_ok {
        return Some("the command loop did not return Ok on quit / end of input".into());
    }
    let log = &e.log;
    // per consumed command: the stdin thread's outputs until the next consumption
    let mut accepted_go_total = 0usize;
    let mut due = 0usize;
    let mut outstanding_infinite = 0usize; // accepted infinite gos not yet stopped
    let mut bestmoves = 0usize;
    let mut current_pos: Option<String> = None; // as set by the last accepted position command
    let mut go_positions: Vec<Option<String>> = vec![]; // position each accepted go searches
    let mut per_thread_best: std::collections::BTreeMap<usize, usize> = Default::default();
    let mut bestmove_texts: Vec<String> = vec![];
    // for the GUI-view rule: status of every delivered go: index in log of its resolution (refusal or bestmove)
    let mut i = 0;
    while i < log.len() {
        match &log[i] {
            Ev::Consume(l) => {
                let word = l.split_whitespace().next().unwrap_or("");
                let mut resp: Vec<&String> = vec![];
                let mut j = i + 1;
                while j < log.len() {
                    match &log[j] {
                        Ev::Consume(_) => break,
                        Ev::Out(0, t) => resp.push(t),
                        _ => {}
                    }
                    j += 1;
                }
                let refused = resp.iter().any(|t| t.starts_with("error:"));
                match word {
                    "isready" => {
                        if resp.first().map(|s| s.as_str()) != Some("readyok") {
                            return Some(format!("`isready` was not answered with readyok before the next command was taken (got {:?})", resp.first()));
                        }
                    }
                    "position" => {
                        if !refused {
                            current_pos = l.split(" fen ").nth(1).map(|s| s.to_string());
                        } else if resp.iter().any(|t| !t.contains("search is still running")) {
                            current_pos = None;
                        }
                    }
                    "go" => {
                        if !refused {
                            accepted_go_total += 1;
                            go_positions.push(current_pos.clone());
                            current_pos = None; // the engine drops the game after a search
                            if sched_is_infinite(l) {
                                outstanding_infinite += 1;
                            } else {
                                due += 1;
                            }
                        }
                    }
                    "stop" | "ucinewgame" => {
                        due += outstanding_infinite;
                        outstanding_infinite = 0;
                        if word == "ucinewgame" {
                            current_pos = None;
                        }
                    }
                    _ => {}
                }
            }
            Ev::Out(t, text) if text.starts_with("bestmove") => {
                bestmoves += 1;
                *per_thread_best.entry(*t).or_insert(0) += 1;
                bestmove_texts.push(text.clone());
                if bestmoves > accepted_go_total {
                    return Some(format!("{} bestmove lines after only {} accepted go commands", bestmoves, accepted_go_total));
                }
                // legality in the position that go was asked about: the k-th accepted go spawned the k-th search thread
                let search_threads: Vec<usize> = e.names.iter().enumerate().filter(|(_, n)| **n == "search").map(|(i, _)| i).collect();
                let which_go = search_threads.iter().position(|i| i == t).unwrap_or(bestmoves - 1);
                if let Some(Some(fen)) = go_positions.get(which_go) {
                    let mv = text.split_whitespace().nth(1).unwrap_or("");
                    let legal = legal_in(fen);
                    // a finished game (no legal move) is answered with `bestmove none`, and only a finished game is
                    let right = if legal.is_empty() { mv == "none" } else { legal.iter().any(|m| m == mv) };
                    if !right {
                        return Some(format!("`{}` is not a legal move of the position the go was asked about ({}; legal {:?})", text, fen, legal));
                    }
                }
            }
            _ => {}
        }
        i += 1;
    }
    // a search without a time budget of its own ends only at its depth limit or on stop / ucinewgame / quit: a
    // `bestmove` that appears while the command loop is still at work (a later command is consumed afterwards) and
    // before any of those was consumed means something else lowered its flag (a stale timer of an earlier search)
    {
        let search_threads: Vec<usize> = e.names.iter().enumerate().filter(|(_, n)| **n == "search").map(|(i, _)| i).collect();
        let mut accepted: Vec<(usize, String)> = vec![]; // (log index of consumption, text) of accepted go commands
        for (i, ev) in log.iter().enumerate() {
            if let Ev::Consume(l) = ev {
                if l.split_whitespace().next() == Some("go") {
                    let mut refused = false;
                    for e2 in &log[i + 1..] {
                        match e2 {
                            Ev::Consume(_) => break,
                            Ev::Out(0, t) if t.starts_with("error:") => refused = true,
                            _ => {}
                        }
                    }
                    if !refused {
                        accepted.push((i, l.clone()));
                    }
                }
            }
        }
        for (bi, ev) in log.iter().enumerate() {
            let Ev::Out(t, text) = ev else { continue };
            if !text.starts_with("bestmove") {
                continue;
            }
            let Some(k) = search_threads.iter().position(|x| x == t) else { continue };
            let Some((gi, gtext)) = accepted.get(k) else { continue };
            if *gi > bi {
                continue;
            }
            let toks: Vec<&str> = gtext.split_whitespace().collect();
            if toks.iter().any(|x| matches!(*x, "movetime" | "wtime" | "btime" | "winc" | "binc")) {
                continue;
            }
            // a finished game (or a single legal reply) is answered without any iteration: that is the search's own end
            if text.trim() == "bestmove none" {
                continue;
            }
            let ended_by_command = log[*gi..bi].iter().any(|x| matches!(x, Ev::Consume(l) if matches!(l.split_whitespace().next(), Some("stop") | Some("ucinewgame") | Some("quit"))));
            let loop_still_working = log[bi..].iter().any(|x| matches!(x, Ev::Consume(_)));
            if ended_by_command || !loop_still_working {
                continue;
            }
            let printed_depth = |d: &str| log[*gi..bi].iter().any(|x| matches!(x, Ev::Out(tt, l) if tt == t && crate::srch::parse_info(l).and_then(|i| i.depth).map_or(false, |x| x.to_string() == d)));
            if toks.contains(&"infinite") {
                if !printed_depth("64") {
                    return Some(format!("`{}` announced `{}` although no stop, ucinewgame or quit had been processed (and it had not run through all iterations): something else ended the search", gtext, text));
                }
            } else if let Some(p) = toks.iter().position(|x| *x == "depth") {
                if let Some(d) = toks.get(p + 1) {
                    if d.parse::<u32>().map_or(false, |d| d >= 1 && d <= 64) && !printed_depth(d) {
                        return Some(format!("`{}` announced `{}` without having completed iteration {} and without stop, ucinewgame or quit: something else ended the search", gtext, text, d));
                    }
                }
            }
        }
    }
    if let Some((t, n)) = per_thread_best.iter().find(|(_, n)| **n > 1) {
        return Some(format!("search thread #{} printed {} bestmove lines", t, n));
    }
    if bestmoves < due {
        return Some(format!("{} go command(s) were due an answer (depth/time limited, stopped, or interrupted by ucinewgame) but only {} bestmove line(s) appeared", due, bestmoves));
    }
    // GUI's point of view: a position/go delivered when every earlier delivered go is resolved (refused or answered) must not be refused as "still running"
    let mut k = 0;
    while k < log.len() {
        if let Ev::Deliver(l) = &log[k] {
            let word = l.split_whitespace().next().unwrap_or("");
            if word == "position" || word == "go" {
                if gos_resolved_before(log, k) {
                    // find this line's consumption and response
                    if let Some(resp) = response_of_delivery(log, k) {
                        if resp.iter().any(|t| t.contains("search is still running")) {
                            return Some(format!("`{}` was sent after every earlier go had been answered, yet it was refused: {:?}", l, resp));
                        }
                    }
                }
            }
        }
        k += 1;
    }
    // virtual-time promptness (C13/C07 through the UCI layer): after a timer thread has exited, its search enters at most one more node
    for (ti, name) in e.names.iter().enumerate() {
        if *name != "timer" || e.names.get(ti + 1) != Some(&"search") {
            continue;
        }
        let si = ti + 1;
        let Some(exit_at) = e.events.iter().position(|(t, n)| *t == ti && *n == "exit") else { continue };
        let mut polls = 0;
        for (t, n) in &e.events[exit_at..] {
            if *t == si && *n == "poll" {
                polls += 1;
            }
            if *t == si && *n == "search_print_bestmove" {
                break;
            }
        }
        // only meaningful if the flag was already up when the timer fired: the search thread is born after the raise,
        // so any event of the search thread before the timer's exit proves it (otherwise the never-answers verdict covers it)
        let flag_was_up = e.events[..exit_at].iter().any(|(t, _)| *t == si);
        if polls > 1 && flag_was_up {
            return Some(format!("after the time budget elapsed (timer thread exited) the search entered {} further nodes before announcing", polls));
        }
    }
    None
}

fn sched_is_infinite(text: &str) -> bool {
    text.split_whitespace().any(|t| t == "infinite")
}

/// every go delivered before index k is resolved before k: refused (error printed) or answered (bestmove printed)
fn gos_resolved_before(log: &[Ev], k: usize) -> bool {
    let mut delivered_gos = 0usize;
    for ev in &log[..k] {
        if let Ev::Deliver(l) = ev {
            if l.starts_with("go") {
                delivered_gos += 1;
            }
        }
    }
    let mut resolved = 0usize;
    let mut i = 0;
    while i < k {
        match &log[i] {
            Ev::Consume(l) if l.starts_with("go") => {
                // refusal printed before k?
                let mut j = i + 1;
                while j < k {
                    match &log[j] {
                        Ev::Consume(_) => break,
                        Ev::Out(0, t) if t.starts_with("error:") => {
                            resolved += 1;
                            break;
                        }
                        _ => {}
                    }
                    j += 1;
                }
            }
            Ev::Out(_, t) if t.starts_with("bestmove") => resolved += 1,
            _ => {}
        }
        i += 1;
    }
    resolved >= delivered_gos
}

/// the stdin thread's outputs while processing the line delivered at log index k
fn response_of_delivery(log: &[Ev], k: usize) -> Option<Vec<String>> {
    // deliveries and consumptions are FIFO: the n-th delivery is the n-th consumption
    let nth = log[..=k].iter().filter(|e| matches!(e, Ev::Deliver(_))).count();
    let mut seen = 0;
    for (i, ev) in log.iter().enumerate() {
        if let Ev::Consume(_) = ev {
            seen += 1;
            if seen == nth {
                let mut resp = vec![];
                for e2 in &log[i + 1..] {
                    match e2 {
                        Ev::Consume(_) => break,
                        Ev::Out(0, t) => resp.push(t.clone()),
                        _ => {}
                    }
                }
                return Some(resp);
            }
        }
    }
    None
}

pub const HORIZON: usize = 400;

pub fn script_json(s: &Script) -> J {
    json::obj(vec![("name", json::s(s.name.clone())), ("lines", J::Arr(s.lines.iter().map(|l| json::obj(vec![("text", json::s(l.text.clone())), ("guard", json::s(match l.guard { Guard::Now => "now".to_string(), Guard::WhenAnswered => "when-answered".to_string(), Guard::AfterInfoLines(n) => format!("after-info-{}", n) }))])).collect()))])
}

pub fn script_from_json(j: &J) -> Result<Script, String> {
    let name = j.get("name").and_then(|x| x.as_str()).unwrap_or("replay").to_string();
    let mut lines = vec![];
    for l in j.get("lines").and_then(|x| x.as_arr()).ok_or("lines")? {
        let text = l.get("text").and_then(|x| x.as_str()).ok_or("text")?;
        let gs = l.get("guard").and_then(|x| x.as_str()).unwrap_or("now");
        let guard = if gs == "when-answered" { Guard::WhenAnswered } else if let Some(n) = gs.strip_prefix("after-info-") { Guard::AfterInfoLines(n.parse().unwrap_or(1)) } else { Guard::Now };
        lines.push(line(text, guard));
    }
    Ok(Script { name, lines })
}

/// explore one script; fold the result into acc
pub fn explore_script(s: &Script, bound: usize, oracle_fn: &dyn Fn(&Exec) -> Option<String>, prop_tag: &str, acc: &mut Acc) {
    // scripts about timers that outlive their search are explored with the sleeping-timer cost model
    sched::SLEEPY_TIMERS.store(s.name.contains("live timer"), std::sync::atomic::Ordering::Relaxed);
    let r = sched::explore(&s.lines, bound, HORIZON, oracle_fn, 200_000);
    sched::SLEEPY_TIMERS.store(false, std::sync::atomic::Ordering::Relaxed);
    acc.states += 1;
    acc.evaluations += r.executions;
    acc.transitions += r.decisions;
    acc.max("schedules explored for one script", r.executions);
    acc.max("threads in one execution", r.max_threads as u64);
    for m in &r.machinery {
        if m.starts_with("CAP") {
            acc.count("scripts whose exploration hit the execution cap (not exhaustive for them)");
        } else if m != "HARD-DEADLOCK" {
            acc.errors.push(format!("{}: {}", s.name, m));
        }
    }
    for o in r.outcomes.iter().take(4) {
        acc.outcome(o.clone());
    }
    if let Some((sch, v)) = r.violations.first() {
        // key: the verdict class (text up to the first ':' or '(') so that one defect is one finding across scripts
        let class: String = v.split(|c| c == ':' || c == '(' || c == '[').next().unwrap_or(v).trim().to_string();
        acc.violation(
            format!("{}|{}|{}", prop_tag, class, s.name),
            format!("{} [script: {}; schedule: non-default choices at decisions {:?} of {}; {}{} of {} explored schedules fail]", v, s.lines.iter().map(|l| l.text.as_str()).collect::<Vec<_>>().join(" / "), sch.iter().enumerate().filter(|(_, c)| **c != 0).map(|(i, c)| (i, *c)).collect::<Vec<_>>(), sch.len(), if r.n_violations >= 8 { "at least " } else { "" }, r.n_violations, r.executions),
            json::obj(vec![("kind", json::s("e5-schedule")), ("script", script_json(s)), ("schedule", J::Arr(sch.iter().map(|c| json::i(*c)).collect())), ("bound", json::i(bound))]),
        );
    }
    if acc.samples.len() < 2 {
        acc.sample(json::obj(vec![("script", script_json(s)), ("schedules_explored", json::i(r.executions)), ("distinct_transcripts", json::i(r.outcomes.len()))]));
    }
}

pub fn run_shard(tier: &str, shard: usize, nshards: usize) -> Acc {
    let scripts = all_scripts(tier);
    let bound = if tier == "quick" { 2 } else { 3 };
    let mut acc = Acc::new();
    for (i, s) in scripts.iter().enumerate() {
        if i % nshards == shard {
            explore_script(s, bound, &oracle, "c14", &mut acc);
        }
    }
    acc
}

/// Long-running sessions without interleaving exploration (native speed, the engine's threads share the caller's
/// sequential hook context): deep `go depth N` on tiny roots where dozens of iterations complete, followed by more
/// commands. The session must survive: every go answered, isready answered, uci_talk returns Ok.
pub fn deep_sessions(tier: &str) -> Acc {
    use crate::props::c12::uci_seq;
    let roots = ["8/8/8/4k3/8/8/4K3/8 w - - 0 1", "k7/2K5/8/8/8/8/8/8 w - - 0 1", "k7/8/8/p1p1p1p1/P1P1P1P1/8/8/K7 w - - 0 1", "8/8/4k3/8/8/4K3/8/8 b - - 0 1"];
    let depths: Vec<u32> = if tier == "quick" { vec![40, 64, 66, 100, 255] } else { vec![33, 34, 40, 63, 64, 65, 66, 67, 100, 128, 200, 255] };
    let mut cases = vec![];
    for r in roots {
        for d in &depths {
            cases.push((r.to_string(), *d));
        }
    }
    // game records of every length 0..=14 in which both sides shuffle (the root's repetition handling looks 4, 5 and
    // more plies back into the record): `position <root> moves <k plies>; go depth 2` must be answered whatever k is
    let shuffles: [(&str, [&str; 4]); 3] = [
        ("rnbqkbnr/pppppppp/8/8/8/8/PPPPPPPP/RNBQKBNR w KQkq - 0 1", ["g1f3", "g8f6", "f3g1", "f6g8"]),
        ("7k/8/8/8/8/8/8/K7 w - - 0 1", ["a1b1", "h8g8", "b1a1", "g8h8"]),
        ("4k3/8/8/8/8/8/8/R3K3 w Q - 0 1", ["a1a2", "e8e7", "a2a1", "e7e8"]),
    ];
    for (root, sh) in shuffles {
        for k in 0..=14usize {
            let mv: Vec<&str> = (0..k).map(|i| sh[i % 4]).collect();
            cases.push((format!("{} moves {}", root, mv.join(" ")).trim_end_matches(" moves ").to_string(), 2));
        }
    }
    par_items(&cases, &|_, (root, d), acc| {
        let root = &if root.ends_with(" moves") { root.trim_end_matches(" moves").to_string() } else { root.clone() };
        let script = vec![format!("position fen {}", root), format!("go depth {}", d), "wait".to_string(), "isready".to_string(), format!("position fen {}", root), "go depth 2".to_string(), "wait".to_string(), "isready".to_string(), "quit".to_string()];
        acc.states += 1;
        acc.evaluations += 1;
        let mut ctx = crate::verif_hooks::SeqCtx::new();
        ctx.input = script.clone().into();
        ctx.watchdog = if tier == "quick" { 1_500_000 } else { 20_000_000 };
        let (r, ctx) = crate::verif_hooks::in_seq(ctx, || crate::bind::guarded(|| crate::uci::uci_talk()));
        let t = ctx.transcript;
        let key = format!("deep|{}|{}", root, d);
        let replay = json::obj(vec![("kind", json::s("c14-deep")), ("root", json::s(root.clone())), ("depth", json::i(*d))]);
        let _ = uci_seq;
        match r {
            Err(p) => acc.violation(key, format!("`go depth {}` on {}: the session died: {}", d, root, p), replay),
            Ok(Err(e)) => acc.violation(key, format!("`go depth {}` on {}: uci_talk returned an error: {}", d, root, e), replay),
            Ok(Ok(())) => {
                let bm = t.iter().filter(|l| l.starts_with("bestmove")).count();
                let ro = t.iter().filter(|l| *l == "readyok").count();
                let errs = t.iter().filter(|l| l.starts_with("error:")).count();
                let deepest = crate::srch::info_depths(&t).into_iter().max().unwrap_or(0) as u64;
                acc.max("deepest iteration completed in a deep session", deepest);
                acc.transitions += 1;
                if bm != 2 || ro != 2 || errs != 0 {
                    acc.violation(key, format!("`go depth {}` on {}: {} bestmove, {} readyok, {} error lines (expected 2, 2, 0)", d, root, bm, ro, errs), replay);
                } else {
                    acc.outcome(format!("deep session ok, iterations {}", if deepest >= 64 { ">=64" } else { "<64 (poll cap)" }));
                }
            }
        }
    })
}

/// The command-line grammar G: every `go` parameter with every kind of value (missing, not a number, negative,
/// zero, one, above u64, fractional), combinations, unknown tokens, every shape of the `position` command, and
/// the remaining commands with leading / trailing junk.
pub fn grammar_lines() -> Vec<String> {
    let mut g: Vec<String> = vec![];
    let vals = ["", "abc", "-1", "0", "1", "18446744073709551616", "3.5"];
    for p in ["depth", "movetime", "wtime", "btime", "winc", "binc"] {
        for v in vals {
            g.push(format!("go {} {}", p, v).trim_end().to_string());
        }
    }
    for l in [
        "go", "go infinite", "go ponder", "go searchmoves a1a2", "go nodes 100", "go mate 1", "go depth 1 depth 2", "go depth 2 movetime 1", "go infinite depth 1", "go wtime 1000 btime 1000", "go wtime 1000 btime 1000 winc 0 binc 0",
        "go wtime 0 btime 0 winc 0 binc 0", "go wtime 1 btime 1 winc 0 binc 0 movestogo 40", "go wtime x btime 1000 winc 0 binc 0", "go depth", "go depth 255", "go depth 256", "go movetime 0", "go xyz depth 1", "xyz go depth 1", "go go depth 1",
        "position", "position startpos", "position startpos moves", "position startpos moves e2e4 e7e5", "position startpos moves e2e5", "position startpos moves e2e4 e2e4", "position startpos e2e4", "position moves e2e4", "position fen",
        "position fen 8/8 w", "position fen k7/8/8/8/8/8/8/7K b - - 0 1", "position fen k7/8/8/8/8/8/8/7K b - - 0 1 moves a8a7", "position fen k7/8/8/8/8/8/8/7K b - - 0 1 moves a8a6", "position fen k7/8/8/8/8/8/8/7K b - -", "position fen k7/8/8/8/8/8/8/7K b - - moves a8b8 h1g1",
        "position fen startpos", "position xyz", "position startpos fen k7/8/8/8/8/8/8/7K b - - 0 1", "xyz position startpos", "position startpos moves e2e4 xyz", "position startpos moves 0000",
        "", " ", "\t", "uci", "isready", "isready isready", "xyz isready", "isready xyz", "ucinewgame", "ucinewgame ucinewgame", "stop", "stop stop", "wait", "show", "d", "show show", "foo", "foo bar baz", "quitx", "setoption name Hash value 16", "debug on", "register later", "ponderhit",
    ] {
        g.push(l.to_string());
    }
    g
}

fn first_known(line: &str) -> Option<&str> {
    line.split_ascii_whitespace().find(|t| matches!(*t, "uci" | "ucinewgame" | "isready" | "position" | "go" | "show" | "d" | "stop" | "wait" | "quit"))
}

/// Sequential sessions (native speed, every `go` is followed by `stop`, so the transcript order is fixed):
/// `position P0; X1; stop; isready; [X2; stop; isready;] show; go depth 1; stop; isready; quit` for all X over G.
pub fn grammar_sessions(tier: &str) -> Acc {
    let g = grammar_lines();
    let mut words: Vec<Vec<String>> = g.iter().map(|x| vec![x.clone()]).collect();
    let second: Vec<&String> = if tier == "quick" { g.iter().filter(|x| !x.starts_with("go w") && !x.starts_with("go b")).collect() } else { g.iter().collect() };
    for a in &g {
        for b in &second {
            words.push(vec![a.clone(), (*b).clone()]);
        }
    }
    par_items(&words, &|_, w, acc| {
        let mut script = vec![format!("position fen {}", P0)];
        let mut expected_ready = 0usize;
        for x in w {
            script.push(x.clone());
            if first_known(x) == Some("isready") {
                expected_ready += 1;
            }
            script.push("stop".into());
            script.push("isready".into());
            expected_ready += 1;
        }
        script.extend(["show", "go depth 1", "stop", "isready", "quit"].iter().map(|s| s.to_string()));
        expected_ready += 1;
        acc.states += 1;
        acc.evaluations += 1;
        let mut ctx = crate::verif_hooks::SeqCtx::new();
        ctx.input = script.clone().into();
        ctx.watchdog = 3_000;
        let (r, ctx) = crate::verif_hooks::in_seq(ctx, || crate::bind::guarded(|| crate::uci::uci_talk()));
        let t = ctx.transcript;
        let key = format!("grammar|{}", w.join(" ; "));
        let replay = json::obj(vec![("kind", json::s("c14-grammar")), ("word", json::strs(w))]);
        let shown = |what: String| format!("{} [session: {}]", what, script.join(" / "));
        match r {
            Err(p) => return acc.violation(key, shown(format!("the session died: {}", p)), replay),
            Ok(Err(e)) => return acc.violation(key, shown(format!("uci_talk returned an error: {}", e)), replay),
            Ok(Ok(())) => {}
        }
        acc.transitions += script.len() as u64;
        // segments between readyok lines
        let mut segs: Vec<Vec<&String>> = vec![vec![]];
        for l in &t {
            if l == "readyok" {
                segs.push(vec![]);
            } else {
                segs.last_mut().unwrap().push(l);
            }
        }
        let ready = segs.len() - 1;
        if ready != expected_ready {
            return acc.violation(key, shown(format!("{} readyok lines for {} isready commands", ready, expected_ready)), replay);
        }
        // walk the segments in step with the words (an X that is itself `isready` splits its segment: merge by counting)
        let mut si = 0usize;
        for x in w {
            let extra = if first_known(x) == Some("isready") { 1 } else { 0 };
            let mut lines: Vec<&String> = vec![];
            for _ in 0..=extra {
                lines.extend(segs[si].iter().cloned());
                si += 1;
            }
            let best = lines.iter().filter(|l| l.starts_with("bestmove")).count();
            let errs = lines.iter().filter(|l| l.starts_with("error:")).count();
            if first_known(x) == Some("go") {
                if !((errs == 1 && best == 0) || (errs == 0 && best == 1)) {
                    return acc.violation(key, shown(format!("`{}` followed by `stop`: {} error line(s) and {} bestmove line(s) (an accepted go gets exactly one bestmove, a refused one none)", x, errs, best)), replay);
                }
                acc.outcome(format!("go-line {}", if best == 1 { "answered" } else { "refused" }));
            } else if best != 0 {
                return acc.violation(key, shown(format!("`{}` is not a go command, yet {} bestmove line(s) appeared", x, best)), replay);
            }
        }
        let last = &segs[si];
        let best: Vec<&&String> = last.iter().filter(|l| l.starts_with("bestmove")).collect();
        let fen = last.iter().find_map(|l| l.split('\n').find_map(|x| x.strip_prefix("Fen: ")));
        match fen {
            Some(f) => {
                let legal = legal_in(f);
                if best.len() != 1 {
                    return acc.violation(key, shown(format!("a game is shown ({}) but the final `go depth 1` produced {} bestmove lines", f, best.len())), replay);
                }
                let mv = best[0].split_whitespace().nth(1).unwrap_or("");
                if !legal.is_empty() && !legal.iter().any(|m| m == mv) {
                    return acc.violation(key, shown(format!("`{}` is not legal in the shown position {}", best[0], f)), replay);
                }
                acc.outcome("final go answered in the shown position");
            }
            None => {
                if !best.is_empty() || !last.iter().any(|l| l.starts_with("error:")) {
                    return acc.violation(key, shown(format!("no game is shown, yet the final go produced {} bestmove line(s) / no error", best.len())), replay);
                }
                acc.outcome("no game: final go refused");
            }
        }
        if acc.samples.len() < 2 && w.len() == 2 {
            acc.sample(json::obj(vec![("session", json::strs(&script)), ("transcript_lines", json::i(t.len()))]));
        }
    })
}

/// Real-time sessions against the real binary (see realbin.rs). The only timing-dependent verdict is "no answer
/// within LIMIT", with LIMIT far beyond anything a working engine needs for these tiny tasks.
pub fn real_sessions(acc: &mut Acc) -> Option<String> {
    use crate::realbin::Session;
    use std::time::Duration;
    let bin = crate::realbin::real_bin()?;
    const LIMIT: Duration = Duration::from_secs(90);
    type Step = (&'static str, &'static str); // (line to send, prefix of the line to wait for; "" = nothing)
    let kvk = "position fen 8/8/4k3/8/8/4K3/8/8 w - - 0 1";
    let scripts: Vec<(&str, Vec<Step>, bool)> = vec![
        ("isready and stop during an infinite search", vec![("position startpos", ""), ("go infinite", "info depth"), ("isready", "readyok"), ("isready", "readyok"), ("stop", "bestmove"), ("isready", "readyok"), ("quit", "")], false),
        ("move time", vec![("position startpos", ""), ("go movetime 300", "bestmove"), ("position startpos moves e2e4", ""), ("go depth 2", "bestmove"), ("isready", "readyok"), ("quit", "")], false),
        ("clock without increments", vec![("position startpos", ""), ("go wtime 3000 btime 3000", "bestmove"), ("isready", "readyok"), ("quit", "")], false),
        ("clock with increments, black to move", vec![("position startpos moves e2e4", ""), ("go wtime 3000 btime 3000 winc 100 binc 100", "bestmove"), ("quit", "")], false),
        ("isready during a deep search of a tiny position", vec![(kvk, ""), ("go depth 200", "info depth"), ("isready", "readyok"), ("stop", "bestmove"), ("isready", "readyok"), ("quit", "")], false),
        ("ucinewgame during a search", vec![("position startpos", ""), ("go infinite", "info depth"), ("ucinewgame", "bestmove"), ("isready", "readyok"), ("position startpos", ""), ("go depth 1", "bestmove"), ("quit", "")], false),
        ("refused commands during a search are answered at once", vec![("position startpos", ""), ("go infinite", "info depth"), ("position startpos moves e2e4", "error"), ("go depth 1", "error"), ("show", "error"), ("stop", "bestmove"), ("quit", "")], false),
        ("uci handshake", vec![("uci", "uciok"), ("isready", "readyok"), ("ucinewgame", ""), ("position startpos", ""), ("go depth 1", "bestmove"), ("quit", "")], false),
        ("end of input while idle", vec![("position startpos", ""), ("go depth 1", "bestmove")], true),
        ("end of input while searching", vec![("position startpos", ""), ("go infinite", "info depth")], true),
        ("quit while searching", vec![("position startpos", ""), ("go infinite", "info depth"), ("quit", "")], false),
        ("quit during a depth-limited search far from its limit", vec![("position startpos", ""), ("go depth 60", "info depth"), ("quit", "")], false),
        ("quit during a time-limited search far from its limit", vec![("position startpos", ""), ("go movetime 3600000", "info depth"), ("quit", "")], false),
        ("end of input during a depth-limited search far from its limit", vec![("position startpos", ""), ("go depth 60", "info depth")], true),
    ];
    let res = par_items(&scripts, &|_, (name, steps, eof), acc| {
        acc.states += 1;
        acc.evaluations += 1;
        let key = format!("real|{}", name);
        let replay = json::obj(vec![("kind", json::s("c14-real")), ("name", json::s(*name))]);
        let mut s = match Session::start(&bin) {
            Ok(s) => s,
            Err(e) => {
                acc.errors.push(e);
                return;
            }
        };
        let mut failed = None;
        for (send, wait) in steps {
            if let Err(e) = s.send(send) {
                failed = Some(format!("sending `{}`: {}", send, e));
                break;
            }
            acc.transitions += 1;
            if !wait.is_empty() {
                if let Err(e) = s.expect(|l| l.starts_with(wait), LIMIT) {
                    failed = Some(format!("after `{}` no `{}` line: {}", send, wait, e));
                    break;
                }
            }
        }
        if failed.is_none() {
            if *eof {
                s.close_stdin();
            }
            match s.wait_exit(LIMIT) {
                Ok(0) => {}
                Ok(c) => failed = Some(format!("exit status {} (stderr: {})", c, s.stderr_text())),
                Err(e) => failed = Some(e),
            }
        }
        let err = s.stderr_text();
        if failed.is_none() && err.contains("panicked") {
            failed = Some(format!("a thread panicked: {}", err));
        }
        if failed.is_none() {
            let best = s.seen.iter().filter(|l| l.starts_with("bestmove")).count();
            let gos = steps.iter().filter(|(l, w)| l.starts_with("go") && *w != "error").count();
            if best > gos {
                failed = Some(format!("{} bestmove lines for {} accepted go commands", best, gos));
            }
        }
        match failed {
            Some(f) => acc.violation(key, format!("real binary, session `{}` ({}): {}", name, steps.iter().map(|(l, _)| *l).collect::<Vec<_>>().join(" / "), f), replay),
            None => acc.outcome(format!("real binary: {}", name)),
        }
    });
    acc.merge(res);
    Some(bin)
}

pub fn run(tier: &str, seed: i64) -> Outcome {
    // many small shards handed to a pool of 16 worker processes: the few scripts explored with sleeping timers cost
    // 100x an ordinary one and would otherwise decide the wall time of their shard
    let nshards = 96;
    let args: Vec<Vec<String>> = (0..nshards).map(|i| vec!["C14".to_string(), tier.to_string(), seed.to_string(), "--worker".to_string(), format!("--shard={}/{}", i, nshards)]).collect();
    let t0 = std::time::Instant::now();
    let acc = run_workers(&self_exe(), args, 16);
    let n = all_scripts(tier).len();
    let bound = if tier == "quick" { 2 } else { 3 };
    let reports = vec![SpaceReport { name: format!("E5: {} scripts (all words of length <= {} over the 9-command alphabet after `position P0`, eager and reactive GUI, plus 16 (quick) / 17 scenario scripts) x all interleavings with deviation cost <= {}", n, if tier == "quick" { 3 } else { 4 }, bound), states: acc.states, exhaustive: !acc.counts.contains_key("scripts whose exploration hit the execution cap (not exhaustive for them)"), note: format!("[{:.1}s, 16 worker processes]", t0.elapsed().as_secs_f64()) }];
    let (mut acc, mut reports) = (acc, reports);
    let t1 = std::time::Instant::now();
    let deep = deep_sessions(tier);
    reports.push(SpaceReport { name: "deep sessions: `position tiny; go depth N; wait; isready; position; go depth 2; wait; isready; quit` for N up to 255 on 4 tiny roots, and the same with shuffle game records of every length 0..=14 on 3 roots, sequential schedule at native speed".into(), states: deep.states, exhaustive: true, note: format!("[{:.1}s]", t1.elapsed().as_secs_f64()) });
    acc.merge(deep);
    let t2 = std::time::Instant::now();
    let gram = grammar_sessions(tier);
    reports.push(SpaceReport { name: format!("command grammar: all words of length <= 2 over {} command-line shapes (every go parameter x every kind of value, position shapes, junk), each followed by stop/isready, then show + go depth 1", grammar_lines().len()), states: gram.states, exhaustive: true, note: format!("[{:.1}s]", t2.elapsed().as_secs_f64()) });
    acc.merge(gram);
    let t3 = std::time::Instant::now();
    let mut real = Acc::new();
    match real_sessions(&mut real) {
        Some(bin) => reports.push(SpaceReport { name: format!("real binary ({}): {} real-time sessions, verdict only on 'no answer within 90 s' / exit status / panic text", bin, real.states), states: real.states, exhaustive: true, note: format!("[{:.1}s]", t3.elapsed().as_secs_f64()) }),
        None => real.errors.push("VERIF_REAL_BIN not set or missing: the real-binary sessions were not run".into()),
    }
    acc.merge(real);
    let mut out = Outcome::new(acc, reports, "every script runs the real uci_talk with its search and timer threads on OS threads serialised by a baton; schedule points are the hooked flag accesses, lock acquisitions, spawns, joins, stdin reads, node-entry polls and prints; the GUI is a pseudo-thread; iterative deviation bounding (preemption of a runnable thread or running a poller ahead of a runnable non-poller costs 1) explores every schedule within the bound; each execution is judged on its ordered transcript; a failing schedule is replayed twice and must reproduce the identical transcript");
    out.traces_validated = out.acc.evaluations;
    out.exhaustive = out.spaces[0].exhaustive;
    out.assumptions = vec![
        "sequentially consistent interleavings; argued sufficient for one Relaxed AtomicBool per go + one mutex + spawn/join (DESIGN.md 2.4)".into(),
        "virtual time: the timer fires at a scheduler-chosen instant; wall-clock latency is not modelled".into(),
        "a search that nobody can stop is recognised after 400 consecutive decisions in which only the polling search thread is runnable".into(),
    ];
    out
}

pub fn replay(j: &J, oracle_fn: &dyn Fn(&Exec) -> Option<String>) -> Result<Acc, String> {
    if j.get("kind").and_then(|x| x.as_str()) == Some("c14-deep") {
        return Ok(deep_sessions("quick"));
    }
    if j.get("kind").and_then(|x| x.as_str()) == Some("c14-real") {
        let mut a = Acc::new();
        if real_sessions(&mut a).is_none() {
            return Err("replay needs the real binary (VERIF_REAL_BIN)".into());
        }
        return Ok(a);
    }
    if j.get("kind").and_then(|x| x.as_str()) == Some("c14-grammar") {
        return Ok(grammar_sessions("quick"));
    }
    let s = script_from_json(j.get("script").ok_or("script")?)?;
    let schedule: Vec<usize> = j.get("schedule").and_then(|x| x.as_arr()).ok_or("schedule")?.iter().map(|c| c.as_i().unwrap_or(0) as usize).collect();
    let mut acc = Acc::new();
    let e = sched::run(&s.lines, &schedule, HORIZON);
    out!("{}", e.signature());
    let v = e.verdict.clone().or_else(|| oracle_fn(&e));
    if let Some(v) = v {
        acc.violation("replay", v, j.clone());
    }
    Ok(acc)
}
