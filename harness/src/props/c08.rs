//! C08: depth-limited and unlimited searches end cleanly whatever the table holds.
//! (a) E3 words (see e3.rs, oracle Which::C08) + the whole limit axis 1..255 on tiny roots
//! with prior histories; (b) unlimited searches on tiny roots under a poll watchdog.
#![allow(dead_code)]

use crate::explore::*;
use crate::json::{self, J};
use crate::props::e3;
use crate::refchess::*;
use crate::report::Outcome;
use crate::srch::*;

pub fn tiny_roots() -> Vec<String> {
    let mut v = vec![];
    // a king cornered by the other king: every corner, the attacker a knight's move / two squares away
    for (corner, others) in [(56u8, [42u8, 50, 58, 41]), (63, [45, 53, 61, 46]), (0, [18, 10, 2, 17]), (7, [21, 13, 5, 22])] {
        for o in others {
            for white in [true, false] {
                let mut p = Pos::empty();
                p.b[corner as usize] = BK;
                p.b[o as usize] = WK;
                p.white = white;
                if p.sane() {
                    v.push(p.fen6(false));
                }
                let m = p.mirror();
                if m.sane() {
                    v.push(m.fen6(false));
                }
            }
        }
    }
    // locked pawn chains: only the kings can move
    for f in [
        "k7/8/8/p1p1p1p1/P1P1P1P1/8/8/K7 w - - 0 1",
        "k7/8/8/p1p1p1p1/P1P1P1P1/8/8/K7 b - - 0 1",
        "7k/8/8/1p1p1p1p/1P1P1P1P/8/8/7K w - - 0 1",
        "4k3/8/8/pppppppp/PPPPPPPP/8/8/4K3 w - - 0 1",
        "4k3/8/8/pppppppp/PPPPPPPP/8/8/4K3 b - - 0 1",
        "k7/8/p7/P7/8/8/8/K7 w - - 0 1",
        "k7/8/p7/P7/8/8/8/7K b - - 0 1",
        "8/8/8/8/8/p7/P7/K1k5 w - - 0 1",
        "8/8/8/8/8/p7/P7/K1k5 b - - 0 1",
        "k1K5/p7/P7/8/8/8/8/8 b - - 0 1",
        "k1K5/p7/P7/8/8/8/8/8 w - - 0 1",
        "k7/2K5/8/8/8/8/8/8 w - - 0 1",
        // forced lines (see c15.rs): both sides have exactly one legal move on every ply once the a-pawn has advanced
        "5b1k/4pPp1/p3P1p1/6P1/P5p1/4p1P1/4PpP1/5B1K w - - 0 1",
        "5b1k/4pPp1/p3P1p1/P5P1/6p1/4p1P1/4PpP1/5B1K b - - 0 1",
        "5b1k/4pPp1/4P1p1/p5P1/6p1/P3p1P1/4PpP1/5B1K b - - 0 1",
    ] {
        v.push(f.to_string());
    }
    v.sort();
    v.dedup();
    v
}

fn replay_json(fen: &str, steps: &[(Option<u8>, u64)]) -> J {
    json::obj(vec![
        ("kind", json::s("c08-tiny")),
        ("fen", json::s(fen)),
        ("steps", J::Arr(steps.iter().map(|(d, w)| json::obj(vec![("depth", match d { Some(d) => json::i(*d), None => J::Null }), ("watchdog", json::i(*w))])).collect())),
    ])
}

/// run a list of searches (depth limit or None, poll watchdog) on one table; judge the LAST one
pub fn tiny_case(fen: &str, steps: &[(Option<u8>, u64)], acc: &mut Acc) {
    let spec = RootSpec::fen(fen);
    let Ok((game, pos)) = spec.build() else {
        acc.errors.push(format!("cannot build {}", fen));
        return;
    };
    let legal = pos.legal_uci_sorted();
    let mut table = new_table();
    let key = format!("{}|{:?}", fen, steps);
    for (k, (d, wd)) in steps.iter().enumerate() {
        let last = k + 1 == steps.len();
        let cfg = SearchCfg { max_depth: *d, stop_at: u64::MAX, depth_monitor: if last { d.map_or(u32::MAX, |x| x as u32) } else { u32::MAX }, watchdog: *wd, tableless: false };
        let run = run_search(&game, &mut table, &cfg);
        acc.states += 1;
        acc.evaluations += 1;
        acc.max("deepest iteration depth polled", run.max_iter_depth as u64);
        acc.max("deepest iteration reported (info depth)", info_depths(&run.transcript).into_iter().max().unwrap_or(0) as u64);
        if let Err(p) = &run.result {
            acc.violation(format!("c08-crash|{}", key), format!("search crashed: {} [{} steps {:?}, step {}]", p, fen, steps, k + 1), replay_json(fen, steps));
            return;
        }
        if let Some(ch) = &run.game_changed {
            acc.violation(format!("c08-game|{}", key), format!("caller's game changed: {} [{} {:?}]", ch, fen, steps), replay_json(fen, steps));
        }
        if let Ok(Some(m)) = &run.result {
            if !legal.contains(m) {
                acc.violation(format!("c08-illegal|{}", key), format!("announced illegal move {} [{} {:?}]", m, fen, steps), replay_json(fen, steps));
            }
        }
        if last {
            match d {
                Some(d) => {
                    if run.deeper_seen {
                        acc.outcome("limited: ran deeper");
                        acc.violation(format!("c08-deeper|{}", key), format!("depth limit {} but a node of iteration depth {} was entered [{} {:?}]", d, run.max_iter_depth, fen, steps), replay_json(fen, steps));
                    } else if run.watchdog_fired {
                        // iteration depth grows by one per iteration, so "running on" past the limit is exactly what the
                        // depth monitor detects; a watchdog stop below the limit is only a slow search: not covered, not a verdict
                        acc.outcome("limited: cut by the poll cap below its limit (inconclusive)");
                        acc.count("limited searches cut by the poll cap before reaching their limit (not counted as covered)");
                    } else {
                        acc.outcome("limited: ended by itself");
                    }
                }
                None => {
                    acc.outcome(if run.watchdog_fired { "unlimited: stopped by watchdog" } else { "unlimited: ended by itself" });
                    if matches!(run.result, Ok(None)) && !legal.is_empty() && run.polls > 2000 {
                        acc.violation(format!("c08-none|{}", key), format!("unlimited search stopped after {} polls announced no move [{}]", run.polls, fen), replay_json(fen, steps));
                    }
                }
            }
        }
        acc.transitions += 1;
    }
    // afterwards the table must still be usable: a fresh shallow search returns a legal move
    let run = run_search(&game, &mut table, &SearchCfg { max_depth: Some(2), stop_at: u64::MAX, depth_monitor: u32::MAX, watchdog: 5_000_000, tableless: false });
    match &run.result {
        Err(p) => acc.violation(format!("c08-after-crash|{}", key), format!("a depth-2 search on the table left behind crashed: {} [{} {:?}]", p, fen, steps), replay_json(fen, steps)),
        Ok(Some(m)) if legal.contains(m) => {}
        Ok(None) if legal.is_empty() => {}
        Ok(r) => {
            if !run.watchdog_fired {
                acc.violation(format!("c08-after|{}", key), format!("a depth-2 search on the table left behind returned {:?} [{} {:?}]", r, fen, steps), replay_json(fen, steps));
            }
        }
    }
}

/// Histories that contain a search which ran through ALL iterations by itself (possible on tiny roots only): the table
/// then holds a root entry of the maximal depth. Every kind of follow-up search on that table (unlimited, limit above /
/// at / below the maximum) must still announce a legal move, end by itself and respect its limit.
/// Used by C06 (legal move for every table history) and C08 (clean end whatever the table holds).
pub fn deep_histories(tier: &str, prop: &str) -> (Acc, SpaceReport) {
    let roots = tiny_roots();
    let budget: u64 = if tier == "quick" { 2_000_000 } else { 30_000_000 };
    let t0 = std::time::Instant::now();
    let acc = par_items(&roots, &|_, fen, acc| {
        let spec = RootSpec::fen(fen);
        let Ok((game, pos)) = spec.build() else { return };
        let legal = pos.legal_uci_sorted();
        let mut table = new_table();
        let first = run_search(&game, &mut table, &SearchCfg { max_depth: None, stop_at: u64::MAX, depth_monitor: u32::MAX, watchdog: budget, tableless: false });
        acc.evaluations += 1;
        if first.result.is_err() {
            return; // reported by the tiny-root cases of C08
        }
        if first.watchdog_fired {
            acc.count("tiny roots whose unlimited search did not finish all iterations within the poll budget (no deep history)");
            return;
        }
        acc.states += 1;
        let deepest = info_depths(&first.transcript).into_iter().max().unwrap_or(0);
        acc.max("iterations completed by an unlimited search that ended by itself", deepest as u64);
        for follow in [None, Some(255u8), Some(100), Some(65), Some(64), Some(63), Some(2), Some(1)] {
            let mut t = table.clone();
            let steps = vec![(None, budget), (follow, budget)];
            let key = format!("deep-history|{}|{:?}", fen, follow);
            let run = run_search(&game, &mut t, &SearchCfg { max_depth: follow, stop_at: u64::MAX, depth_monitor: follow.map_or(u32::MAX, |d| d as u32), watchdog: budget, tableless: false });
            acc.evaluations += 1;
            acc.transitions += 1;
            match &run.result {
                Err(p) => acc.violation(format!("{}|crash", key), format!("after an unlimited search of {} that ran through all {} iterations, a search with limit {:?} on the same table crashed: {}", fen, deepest, follow, p), replay_json(fen, &steps)),
                Ok(None) if !legal.is_empty() => {
                    acc.outcome("deep history: no move");
                    acc.violation(format!("{}|none", key), format!("after an unlimited search of {} that ran through all {} iterations, a search with limit {:?} on the same table announces no move although {} legal moves exist", fen, deepest, follow, legal.len()), replay_json(fen, &steps))
                }
                Ok(Some(m)) if !legal.contains(m) => acc.violation(format!("{}|illegal", key), format!("after a complete unlimited search of {}, a search with limit {:?} announces the illegal move {}", fen, follow, m), replay_json(fen, &steps)),
                _ => acc.outcome("deep history: legal move"),
            }
            if prop == "C08" {
                if run.deeper_seen {
                    acc.violation(format!("{}|deeper", key), format!("after a complete unlimited search of {}, a search with limit {:?} entered a node of iteration depth {}", fen, follow, run.max_iter_depth), replay_json(fen, &steps));
                } else if run.watchdog_fired {
                    acc.violation(format!("{}|runs-on", key), format!("after a complete unlimited search of {} ({} polls), a search with limit {:?} on the same table did not end within {} polls", fen, first.polls, follow, budget), replay_json(fen, &steps));
                }
            }
        }
    });
    let rep = SpaceReport { name: format!("deep histories: {} tiny roots, an unlimited search that completes every iteration by itself, then each of 8 follow-up searches (unlimited, limits 255, 100, 65, 64, 63, 2, 1) on the table it left", roots.len()), states: acc.states, exhaustive: true, note: format!("[{:.1}s]", t0.elapsed().as_secs_f64()) };
    (acc, rep)
}

/// Repetition roots whose position already has a cached exact entry: the game went x, m, x', m', x - the engine's own
/// earlier search of the position after x (no history then) left an exact root entry whose move is m, which is now the
/// move the repetition filter removes. For every reply m (one root per reply: e3::all_shuffles), the earlier search to
/// depth D in 3..=4 and the later one to every limit d < D: no node deeper than d may be entered, a legal move must come.
pub fn repetition_histories(tier: &str) -> (Acc, SpaceReport) {
    let q = tier == "quick";
    let mut specs: Vec<RootSpec> = vec![];
    for (name, root) in e3::family_roots() {
        if q && (name == "tactical" || name == "opening") {
            continue;
        }
        specs.extend(e3::all_shuffles(root, if q { 2 } else { 4 }));
    }
    for r in tiny_roots().iter().step_by(if q { 6 } else { 1 }) {
        specs.extend(e3::all_shuffles(r, if q { 2 } else { 4 }));
    }
    let t0 = std::time::Instant::now();
    let acc = par_items(&specs, &|_, spec, acc| {
        if spec.history.len() != 5 {
            return;
        }
        // the position after x, as the engine met it the first time: no repetition in its record yet
        let first = RootSpec { fen: spec.fen.clone(), history: vec![spec.history[0].clone()] };
        let (Ok((g1, p1)), Ok((g5, p5))) = (first.build(), spec.build()) else { return };
        if p1.key() != p5.key() {
            // the shuffle lost a castling right or an en-passant file on the way: not the same position, no cached entry applies
            acc.count("shuffles that do not return to the same position (rights or en passant changed): skipped");
            return;
        }
        let legal = p5.legal_uci_sorted();
        for big in 3..=4u8 {
            let mut table = new_table();
            let r1 = run_search(&g1, &mut table, &SearchCfg::depth(big));
            if r1.result.is_err() {
                return;
            }
            let cached_is_excluded = r1.result.as_ref().ok().and_then(|m| m.clone()) == Some(spec.history[1].clone());
            for d in 1..big {
                let mut t = table.clone();
                let run = run_search(&g5, &mut t, &SearchCfg::depth(d));
                acc.states += 1;
                acc.evaluations += 1;
                acc.transitions += 1;
                acc.outcome(if cached_is_excluded { "the cached move is the excluded repetition move" } else { "the cached move is another move" });
                let steps = format!("S[{} ; depth {}] ; S[{} ; depth {}]", first.text(), big, spec.text(), d);
                let replay = json::obj(vec![("kind", json::s("c08-repetition")), ("fen", json::s(spec.fen.clone())), ("history", json::s(spec.history.join(" "))), ("first_depth", json::i(big)), ("depth", json::i(d))]);
                match &run.result {
                    Err(p) => acc.violation(format!("c08-rep-crash|{}|{}|{}", spec.text(), big, d), format!("search crashed: {} [{}]", p, steps), replay.clone()),
                    Ok(None) if !legal.is_empty() => acc.violation(format!("c08-rep-none|{}|{}|{}", spec.text(), big, d), format!("no move announced [{}]", steps), replay.clone()),
                    Ok(Some(m)) if !legal.contains(m) => acc.violation(format!("c08-rep-illegal|{}|{}|{}", spec.text(), big, d), format!("illegal move {} announced [{}]", m, steps), replay.clone()),
                    _ => {}
                }
                if run.deeper_seen {
                    acc.violation(format!("c08-rep-deeper|{}|{}|{}", spec.text(), big, d), format!("depth limit {} but a node of iteration depth {} was entered (the transcript says {:?}) [{}]", d, run.max_iter_depth, info_depths(&run.transcript), steps), replay.clone());
                } else if run.watchdog_fired {
                    acc.violation(format!("c08-rep-runon|{}|{}|{}", spec.text(), big, d), format!("did not end by itself [{}]", steps), replay.clone());
                }
            }
        }
    });
    let rep = SpaceReport { name: format!("repetition roots with a cached exact entry: {} shuffle histories (one per possible repetition move), earlier search of the position to depth 3..=4, later search with every smaller limit", specs.len()), states: acc.states, exhaustive: true, note: format!("[{:.1}s]", t0.elapsed().as_secs_f64()) };
    (acc, rep)
}

pub fn run(tier: &str, seed: i64) -> Outcome {
    let q = tier == "quick";
    // (a) E3 words
    let mut out = e3::run("C08", tier, seed);
    // limit axis and unlimited runs on tiny roots
    let roots = tiny_roots();
    let limits: Vec<u8> = if q { vec![1, 2, 3, 5, 8, 16, 31, 32, 33, 34, 40, 63, 64, 65, 128, 255] } else { (1..=40).chain([63, 64, 65, 127, 128, 254, 255]).collect() };
    let wd_limit: u64 = if q { 300_000 } else { 3_000_000 };
    let mut cases: Vec<(String, Vec<(Option<u8>, u64)>)> = vec![];
    let nroots = if q { 12 } else { roots.len() };
    let stride = (roots.len() / nroots).max(1);
    for (i, r) in roots.iter().enumerate() {
        if i % stride != (seed.unsigned_abs() as usize) % stride {
            continue;
        }
        for &d in &limits {
            cases.push((r.clone(), vec![(Some(d), wd_limit)]));
            if d < 255 {
                cases.push((r.clone(), vec![(Some(d + 1), wd_limit), (Some(d), wd_limit)]));
            }
            cases.push((r.clone(), vec![(Some(255), wd_limit / 4), (Some(d), wd_limit)]));
        }
    }
    // (b) unlimited
    let budgets: Vec<u64> = if q { vec![1_000, 10_000, 100_000] } else { vec![1_000, 10_000, 100_000, 1_000_000, 10_000_000] };
    for r in roots.iter() {
        for &b in &budgets {
            cases.push((r.clone(), vec![(None, b)]));
        }
    }
    let t0 = std::time::Instant::now();
    let acc = par_items(&cases, &|_, (fen, steps), acc| {
        tiny_case(fen, steps, acc);
        if acc.samples.len() < 2 {
            acc.sample(replay_json(fen, steps));
        }
    });
    out.spaces.push(SpaceReport { name: format!("tiny roots: {} roots x limits {:?} x prior history {{none, S(p,d+1), S(p,255 under watchdog)}}; {} roots x unlimited search under poll watchdogs {:?}", nroots, limits, roots.len(), budgets), states: acc.states, exhaustive: true, note: format!("[{:.1}s]", t0.elapsed().as_secs_f64()) });
    if let Some(n) = acc.counts.get("limited searches cut by the poll cap before reaching their limit (not counted as covered)") {
        out.caps.push(format!("{} depth-limited searches on tiny roots were cut by the poll cap of {} before reaching their limit; for them only 'no deeper node entered so far, no crash' was established", n, wd_limit));
    }
    out.acc.merge(acc);
    let (rh, rh_rep) = repetition_histories(tier);
    out.spaces.push(rh_rep);
    out.acc.merge(rh);
    let (dh, dh_rep) = deep_histories(tier, "C08");
    out.spaces.push(dh_rep);
    out.acc.merge(dh);
    out.rule = format!("{} ; plus on tiny roots every depth limit of the list with every prior history, and unlimited searches stopped by a poll watchdog at each budget; afterwards a depth-2 search on the same table must return a legal move", out.rule);
    out.traces_validated = out.acc.states;
    out.assumptions.push("depth limits above 5 are exercised on tiny roots only (a search to depth 30 on an ordinary root cannot finish); 'as long as it is left running' is covered up to the largest poll budget listed".into());
    out
}

pub fn replay(j: &J) -> Result<Acc, String> {
    if j.get("kind").and_then(|x| x.as_str()) == Some("c08-repetition") {
        return Ok(repetition_histories("quick").0);
    }
    let fen = j.get("fen").and_then(|x| x.as_str()).ok_or("fen")?;
    let steps: Vec<(Option<u8>, u64)> = j.get("steps").and_then(|x| x.as_arr()).ok_or("steps")?.iter().map(|s| (s.get("depth").and_then(|d| d.as_i()).map(|d| d as u8), s.get("watchdog").and_then(|d| d.as_i()).unwrap_or(100000) as u64)).collect();
    let mut acc = Acc::new();
    tiny_case(fen, &steps, &mut acc);
    Ok(acc)
}
