//! C20: the board display and the move record show what was actually played.
#![allow(dead_code)]

use crate::bind::*;
use crate::explore::*;
use crate::json::{self, J};
use crate::props::c12::{parse_show, uci_seq, Shown};
use crate::props::core::*;
use crate::refchess::*;
use crate::report::Outcome;
use crate::universe::Universe;

#[derive(Debug, PartialEq, Clone)]
pub struct Token {
    pub castle: Option<bool>, // Some(true) = short
    pub piece: Option<char>,
    pub origin_file: Option<char>,
    pub capture: bool,
    pub dest: String,
    pub promo: Option<char>,
}

/// record grammar: [KQRBN]? file 'x'? square | file? 'x'? square '=' [QRBN] | O-O | O-O-O
pub fn parse_token(t: &str) -> Result<Token, String> {
    if t == "O-O" {
        return Ok(Token { castle: Some(true), piece: None, origin_file: None, capture: false, dest: String::new(), promo: None });
    }
    if t == "O-O-O" {
        return Ok(Token { castle: Some(false), piece: None, origin_file: None, capture: false, dest: String::new(), promo: None });
    }
    let c: Vec<char> = t.chars().collect();
    let is_file = |x: char| ('a'..='h').contains(&x);
    let is_rank = |x: char| ('1'..='8').contains(&x);
    if let Some(eq) = c.iter().position(|&x| x == '=') {
        if eq + 2 != c.len() || !"QRBN".contains(c[eq + 1]) {
            return Err(format!("promotion suffix in {:?}", t));
        }
        let rest = &c[..eq];
        if rest.len() < 2 || !is_file(rest[rest.len() - 2]) || !is_rank(rest[rest.len() - 1]) {
            return Err(format!("destination in {:?}", t));
        }
        let dest: String = rest[rest.len() - 2..].iter().collect();
        let pre = &rest[..rest.len() - 2];
        let (origin_file, capture) = match pre {
            [] => (None, false),
            ['x'] => (None, true),
            [f] if is_file(*f) => (Some(*f), false),
            [f, 'x'] if is_file(*f) => (Some(*f), true),
            _ => return Err(format!("prefix in {:?}", t)),
        };
        return Ok(Token { castle: None, piece: None, origin_file, capture, dest, promo: Some(c[eq + 1]) });
    }
    let mut i = 0;
    let mut piece = None;
    if !c.is_empty() && "KQRBN".contains(c[0]) {
        piece = Some(c[0]);
        i = 1;
    }
    let rest = &c[i..];
    let (origin_file, capture, d) = match rest {
        [f, a, b] if is_file(*f) && is_file(*a) && is_rank(*b) => (Some(*f), false, [*a, *b]),
        [f, 'x', a, b] if is_file(*f) && is_file(*a) && is_rank(*b) => (Some(*f), true, [*a, *b]),
        _ => return Err(format!("token {:?} does not match [KQRBN]? file 'x'? square", t)),
    };
    Ok(Token { castle: None, piece, origin_file, capture, dest: d.iter().collect(), promo: None })
}

pub fn check_token(tok: &str, m: &Mv) -> Result<(), String> {
    let t = parse_token(tok)?;
    match m.kind {
        MvKind::CastleShort => {
            if t.castle != Some(true) {
                return Err(format!("short castling recorded as {:?}", tok));
            }
            return Ok(());
        }
        MvKind::CastleLong => {
            if t.castle != Some(false) {
                return Err(format!("long castling recorded as {:?}", tok));
            }
            return Ok(());
        }
        _ => {}
    }
    if t.castle.is_some() {
        return Err(format!("{} recorded as castling {:?}", m.uci(), tok));
    }
    let want_piece = match kind_of(m.piece) {
        Q => Some('Q'),
        R => Some('R'),
        B => Some('B'),
        N => Some('N'),
        K => Some('K'),
        _ => None,
    };
    if t.piece != want_piece {
        return Err(format!("{}: moving piece recorded as {:?} in {:?}, expected {:?}", m.uci(), t.piece, tok, want_piece));
    }
    if t.dest != sq_name(m.to) {
        return Err(format!("{}: destination recorded as {} in {:?}", m.uci(), t.dest, tok));
    }
    let captured = m.captured != 0;
    if t.capture != captured {
        return Err(format!("{}: capture flag {} in {:?}, move {} capture", m.uci(), t.capture, tok, if captured { "is a" } else { "is not a" }));
    }
    let from_file = (b'a' + (m.from % 8)) as char;
    if m.kind == MvKind::Promotion {
        let want = match m.promo {
            Q => 'Q',
            R => 'R',
            B => 'B',
            _ => 'N',
        };
        if t.promo != Some(want) {
            return Err(format!("{}: promotion piece recorded as {:?} in {:?}, expected {}", m.uci(), t.promo, tok, want));
        }
        match t.origin_file {
            Some(f) if f == from_file => {}
            None if !captured => {} // origin file == destination file, implicit
            other => return Err(format!("{}: origin file recorded as {:?} in {:?}, expected {}", m.uci(), other, tok, from_file)),
        }
    } else {
        if t.promo.is_some() {
            return Err(format!("{}: recorded as a promotion {:?}", m.uci(), tok));
        }
        if t.origin_file != Some(from_file) {
            return Err(format!("{}: origin file recorded as {:?} in {:?}, expected {}", m.uci(), t.origin_file, tok, from_file));
        }
    }
    Ok(())
}

const GLYPHS: [char; 12] = ['♕', '♖', '♗', '♘', '♙', '♔', '♛', '♜', '♝', '♞', '♟', '♚'];

pub fn parse_diagram(rows: &[String]) -> Result<[u8; 64], String> {
    if rows.len() != 8 {
        return Err(format!("{} diagram rows", rows.len()));
    }
    let mut b = [0u8; 64];
    for (i, row) in rows.iter().enumerate() {
        let want_rank = 8 - i;
        let cells: Vec<&str> = row.split('|').collect();
        if cells.len() != 10 || cells[0].trim() != want_rank.to_string() {
            return Err(format!("diagram row {:?} (expected rank {})", row, want_rank));
        }
        for f in 0..8 {
            let cell: Vec<char> = cells[1 + f].chars().collect();
            if cell.len() != 1 {
                return Err(format!("diagram cell {:?}", cells[1 + f]));
            }
            let c = cell[0];
            let code = if c == ' ' {
                0
            } else if let Some(k) = GLYPHS.iter().position(|&g| g == c) {
                1 + k as u8
            } else {
                return Err(format!("unknown glyph {:?}", c));
            };
            b[(8 * (want_rank - 1) + f) as usize] = code;
        }
    }
    Ok(b)
}

/// check a whole display text against the model position `p` and the model moves played into the record
pub fn check_display(text: &str, hash: u64, fen: &str, p: &Pos, record: &[Mv]) -> Result<(), String> {
    let Shown::Game { hash: h, fen: f, pgn, diagram } = parse_show(text) else {
        return Err(format!("display text has no Hash/Fen/PGN lines: {:?}", text));
    };
    if h != format!("{:X}", hash) || hash != keys().hash(p) {
        return Err(format!("Hash line {:?}; hash() = {:X}; key file gives {:X}", h, hash, keys().hash(p)));
    }
    if f != fen {
        return Err(format!("Fen line {:?} differs from fen() {:?}", f, fen));
    }
    let f4: String = f.split(' ').take(4).collect::<Vec<_>>().join(" ");
    if f4 != p.fen4(false) {
        return Err(format!("Fen line {:?} does not describe the position {:?}", f4, p.fen4(false)));
    }
    let b = parse_diagram(&diagram)?;
    if b != p.b {
        return Err(format!("diagram shows {} but the position is {}", board_field(&b), p.placement_field()));
    }
    if !text.contains("   a b c d e f g h") {
        return Err("file legend missing".into());
    }
    // record
    let toks: Vec<&str> = pgn.split_whitespace().collect();
    let mut k = 0;
    for (i, m) in record.iter().enumerate() {
        if i % 2 == 0 {
            let want = format!("{}.", i / 2 + 1);
            if toks.get(k) != Some(&want.as_str()) {
                return Err(format!("move record {:?}: expected move number {:?} before move {}", pgn, want, i + 1));
            }
            k += 1;
        }
        let Some(tok) = toks.get(k) else {
            return Err(format!("move record {:?} lacks move {} ({})", pgn, i + 1, m.uci()));
        };
        check_token(tok, m).map_err(|e| format!("move record {:?}: {}", pgn, e))?;
        k += 1;
    }
    if k != toks.len() {
        return Err(format!("move record {:?} has {} surplus tokens", pgn, toks.len() - k));
    }
    Ok(())
}

fn vio(acc: &mut Acc, ctx: &StateCtx, tag: String, what: String) {
    let mut d = ctx.describe();
    if let J::Obj(v) = &mut d {
        v.insert(0, ("kind".into(), json::s("state")));
    }
    acc.violation(format!("{}|{}", tag, ctx.pos.fen4(false)), format!("{} [{}]", what, ctx.pos.fen4(false)), d);
}

pub fn c20_visit(ctx: &StateCtx, acc: &mut Acc) {
    // the state itself, as loaded (empty record) and as reached with push_history (record = path)
    for (how, g) in games(ctx, acc, true) {
        let record: &[Mv] = if how == "reached" { ctx.path } else { &[] };
        let text = format!("{}", g);
        acc.evaluations += 1;
        if let Err(e) = check_display(&text, g.hash(), &g.fen(), ctx.pos, record) {
            vio(acc, ctx, format!("display-{}", how), format!("{} ({} game)", e, how));
        }
    }
    // every transition played into the record
    let Ok(g) = load(ctx.pos) else { return };
    for m in ctx.pos.legal() {
        let mut h = g.clone();
        let t = m.uci();
        let Some(em) = find_move(&mut h, &t) else { continue };
        if guarded(|| h.push_history(em)).is_err() {
            continue;
        }
        acc.transitions += 1;
        let succ = ctx.pos.apply(&m);
        let text = format!("{}", h);
        match m.kind {
            MvKind::Promotion => acc.outcome(format!("promotion {} capture={}", ["Q", "R", "B", "N"][m.promo as usize], m.captured != 0)),
            MvKind::EnPassant => acc.outcome("en passant"),
            MvKind::CastleShort => acc.outcome("O-O"),
            MvKind::CastleLong => acc.outcome("O-O-O"),
            _ => acc.outcome(format!("{} capture={}", piece_letter(m.piece), m.captured != 0)),
        }
        if let Err(e) = check_display(&text, h.hash(), &h.fen(), &succ, &[m]) {
            // key by the kind of move so that one defect is one finding
            let class = match m.kind {
                MvKind::Promotion => format!("promotion-{}-{}", ["q", "r", "b", "n"][m.promo as usize], if m.captured != 0 { "capture" } else { "quiet" }),
                k => format!("{:?}", k),
            };
            let mut d = ctx.describe();
            if let J::Obj(v) = &mut d {
                v.insert(0, ("kind".into(), json::s("state")));
                v.push(("move".into(), json::s(t.clone())));
            }
            acc.violation(format!("record|{}|{}|{}", class, ctx.pos.fen4(false), t), format!("after {}: {} [{}]", t, e, ctx.pos.fen4(false)), d);
        }
    }
}

pub fn run(tier: &str, seed: i64) -> Outcome {
    let spaces = core_spaces(tier, seed, true);
    let (mut acc, reports) = run_spaces(&spaces, &c20_visit);
    // the real `show` command on a fixed-stride slice
    let off = seed.unsigned_abs();
    let collected = std::sync::Mutex::new(Vec::<Pos>::new());
    let stride = if tier == "quick" { 512 } else { 64 };
    let _ = run_spaces(&[Space::slice(Universe::U3, stride, off), Space::slice(Universe::UC { extras: 1 }, stride / 8, off), Space::all(Universe::UP), Space::bfs("promo", ROOT_PROMO, 2)], &|ctx, _| collected.lock().unwrap().push(*ctx.pos));
    let mut states = collected.into_inner().unwrap();
    states.sort_by_key(|p| p.key());
    let acc_show = par_items(&states, &|_, p, acc| {
        for (mi, m) in p.legal().into_iter().enumerate() {
            let succ = p.apply(&m);
            acc.evaluations += 1;
            match uci_seq(vec![format!("position fen {} moves {}", p.fen6(false), m.uci()), "show".into()]) {
                Ok(t) => {
                    let Some(entry) = t.last() else {
                        acc.violation(format!("show-empty|{}|{}", p.fen4(false), m.uci()), "show printed nothing", json::obj(vec![("kind", json::s("c20-show")), ("fen", json::s(p.fen6(false))), ("move", json::s(m.uci()))]));
                        continue;
                    };
                    acc.count("`show` transcripts checked");
                    if let Err(e) = check_display(entry, keys().hash(&succ), &format!("{} 0 1", succ.fen4(false)), &succ, &[m]) {
                        acc.violation(format!("show|{}|{}", p.fen4(false), m.uci()), format!("`show` after position fen {} moves {}: {}", p.fen6(false), m.uci(), e), json::obj(vec![("kind", json::s("c20-show")), ("fen", json::s(p.fen6(false))), ("move", json::s(m.uci()))]));
                    }
                }
                Err(e) => acc.violation(format!("show-died|{}|{}", p.fen4(false), m.uci()), e, json::obj(vec![("kind", json::s("c20-show")), ("fen", json::s(p.fen6(false))), ("move", json::s(m.uci()))])),
            }
            // two position commands in a row (a GUI taking a move back, or stepping through a game): the game shown is
            // the one the LAST command describes - longer list then its prefix, prefix then the longer list
            if let Some(m2) = succ.legal().first().filter(|_| mi % 6 == 0) {
                let succ2 = succ.apply(m2);
                let (f, a, b) = (p.fen6(false), m.uci(), m2.uci());
                for (first, second, want_pos, want_rec) in [(format!("{} {}", a, b), a.clone(), succ, vec![m]), (a.clone(), format!("{} {}", a, b), succ2, vec![m, *m2])] {
                    acc.evaluations += 1;
                    let rj = json::obj(vec![("kind", json::s("c20-show")), ("fen", json::s(f.clone())), ("move", json::s(format!("[{}] then [{}]", first, second)))]);
                    match uci_seq(vec![format!("position fen {} moves {}", f, first), format!("position fen {} moves {}", f, second), "show".into()]) {
                        Ok(t) => {
                            let Some(entry) = t.last() else { continue };
                            acc.count("`show` after two position commands in a row");
                            let wp = want_pos.normalised();
                            let counters = format!("{} 0 {}", wp.fen4(false), 1 + want_rec.len() / 2);
                            if let Err(e) = check_display(entry, keys().hash(&wp), &counters, &wp, &want_rec) {
                                acc.violation(format!("show-twice|{}|{}|{}", p.fen4(false), first, second), format!("`position fen {} moves {}` followed by `position fen {} moves {}`, then `show`: {}", f, first, f, second, e), rj);
                            }
                        }
                        Err(e) => acc.violation(format!("show-twice-died|{}|{}", p.fen4(false), first), e, rj),
                    }
                }
            }
            // a refused move after a played one: if a game is still shown, it is the game after `m` alone - the
            // record must not contain the refused move. Refused strings: geometrically valid moves that expose the
            // king (pinned piece, king into attack, check not answered) and a null string
            let legal_next: Vec<String> = succ.legal().iter().map(|x| x.uci()).collect();
            let mut bads: Vec<String> = succ.pseudo_legal().iter().map(|x| x.uci()).filter(|t| !legal_next.contains(t)).take(2).collect();
            bads.push("a1a1".into());
            for bad in bads {
                acc.evaluations += 1;
                let rj = json::obj(vec![("kind", json::s("c20-show")), ("fen", json::s(p.fen6(false))), ("move", json::s(format!("{} {}", m.uci(), bad)))]);
                match uci_seq(vec![format!("position fen {} moves {} {}", p.fen6(false), m.uci(), bad), "show".into()]) {
                    Ok(t) => {
                        let Some(entry) = t.last() else { continue };
                        if matches!(parse_show(entry), Shown::Game { .. }) {
                            acc.count("`show` after a refused move: game still shown, record checked");
                            if let Err(e) = check_display(entry, keys().hash(&succ), &format!("{} 0 1", succ.fen4(false)), &succ, &[m]) {
                                acc.violation(format!("show-refused|{}|{}|{}", p.fen4(false), m.uci(), bad), format!("`show` after position fen {} moves {} {} (the last move is refused): {}", p.fen6(false), m.uci(), bad, e), rj);
                            }
                        } else {
                            acc.count("`show` after a refused move: no game shown");
                        }
                    }
                    Err(e) => acc.violation(format!("show-refused-died|{}|{}|{}", p.fen4(false), m.uci(), bad), e, rj),
                }
            }
        }
    });
    acc.merge(acc_show);
    if acc.samples.is_empty() {
        acc.sample(json::obj(vec![("checked", json::s("format!(\"{}\", game) after push_history(m) for every legal m of every state: Hash/Fen/PGN lines and the parsed diagram against the model successor; record tokens against the model move"))]));
    }
    let mut out = Outcome::new(acc, reports, "every state (loaded; and reached with push_history, whole record) and every legal move played into the record with push_history: Hash line == {:X} of hash() == key-file hash, Fen line == fen() and describes the model successor, diagram parsed back == model placement, every record token parsed under the record grammar and compared part by part (piece letter, origin file, capture flag, destination, promotion piece) with the model move; plus the real `show` command on a fixed-stride slice");
    out.traces_validated = out.acc.transitions;
    out.assumptions = vec!["a non-capturing promotion may leave the origin file implicit (it equals the destination file); move numbering is only required to be k. before every odd move".into(), "fen() after moves from a 'b'-to-move import is compared on fields 1-4 only (the counters are not part of the property)".into()];
    out
}
