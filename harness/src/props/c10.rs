//! C10: forced mates within the horizon are found; dead positions are reported as such.
//! The model's own solver classifies every member of the universes; every
//! mate-in-1, forced-mate-in-2, checkmated and stalemated member is searched
//! with the real engine from a fresh table.
#![allow(dead_code)]

use crate::bind::*;
use crate::chess::Game;
use crate::explore::*;
use crate::json::{self, J};
use crate::props::core::*;
use crate::refchess::*;
use crate::report::Outcome;
use crate::srch::*;
use crate::universe::Universe;
use std::collections::HashMap;

/// moves that give checkmate at once
pub fn mating_moves(p: &Pos) -> Vec<Mv> {
    let mut v = vec![];
    for m in p.legal() {
        let n = p.apply(&m);
        if n.in_check(n.white) && n.legal().is_empty() {
            v.push(m);
        }
    }
    v
}

pub struct Solver {
    memo: HashMap<([u8; 34], u8), bool>,
}

impl Solver {
    pub fn new() -> Solver {
        Solver { memo: HashMap::new() }
    }
    /// side to move can force checkmate within n own moves
    pub fn mate_in(&mut self, p: &Pos, n: u8) -> bool {
        if n == 0 {
            return false;
        }
        let k = (p.key(), n);
        if let Some(&r) = self.memo.get(&k) {
            return r;
        }
        let mut res = false;
        for m in p.legal() {
            let after = p.apply(&m).normalised();
            if self.opponent_lost(&after, n - 1) {
                res = true;
                break;
            }
        }
        self.memo.insert(k, res);
        res
    }
    /// `p`: the defender is to move. True iff the defender is checkmated now, or (n > 0 and) has replies and
    /// after every reply the attacker can force mate within n own moves.
    pub fn opponent_lost(&mut self, p: &Pos, n: u8) -> bool {
        let replies = p.legal();
        if replies.is_empty() {
            return p.in_check(p.white);
        }
        if n == 0 {
            return false;
        }
        for r in replies {
            let after = p.apply(&r).normalised();
            if !self.mate_in(&after, n) {
                return false;
            }
        }
        true
    }
}

#[derive(Debug, Clone, Copy, PartialEq)]
pub enum Class {
    MateIn1,
    MateIn2,
    Checkmated,
    Stalemated,
    Other,
}

pub fn classify(p: &Pos, s: &mut Solver) -> Class {
    let legal = p.legal();
    if legal.is_empty() {
        return if p.in_check(p.white) { Class::Checkmated } else { Class::Stalemated };
    }
    if !mating_moves(p).is_empty() {
        return Class::MateIn1;
    }
    // mate in 2: some move after which every reply allows mate in 1 (cheap early exits)
    for m in &legal {
        let after = p.apply(m).normalised();
        let replies = after.legal();
        if replies.is_empty() {
            continue; // stalemate (mate would have been mate-in-1)
        }
        let mut all = true;
        for r in &replies {
            let a2 = after.apply(r).normalised();
            if mating_moves_exist(&a2) {
                continue;
            }
            all = false;
            break;
        }
        if all {
            let _ = s;
            return Class::MateIn2;
        }
    }
    Class::Other
}

fn mating_moves_exist(p: &Pos) -> bool {
    for m in p.legal() {
        let n = p.apply(&m);
        if n.in_check(n.white) && n.legal().is_empty() {
            return true;
        }
    }
    false
}

/// candidate un-moves of the side that is NOT to move in `p` (quiet single steps of a pawn backwards or of the king),
/// returned as (from_now, to_before)
fn unmoves(p: &Pos, white: bool) -> Vec<(u8, u8)> {
    let mut v = vec![];
    for s in 0..64u8 {
        let c = p.b[s as usize];
        if c == 0 || is_white(c) != white {
            continue;
        }
        let (r, f) = (rank_of(s), file_of(s));
        match kind_of(c) {
            P => {
                let back = if white { r - 1 } else { r + 1 };
                // a pawn cannot have come from its own back rank
                if (1..=6).contains(&back) && p.b[sq(back, f) as usize] == 0 {
                    v.push((s, sq(back, f)));
                }
            }
            K => {
                for dr in -1..=1i8 {
                    for df in -1..=1i8 {
                        let (rr, ff) = (r + dr, f + df);
                        if (dr, df) != (0, 0) && (0..8).contains(&rr) && (0..8).contains(&ff) && p.b[sq(rr, ff) as usize] == 0 {
                            v.push((s, sq(rr, ff)));
                        }
                    }
                }
            }
            _ => {}
        }
    }
    v
}

/// A six-ply history ending in `root` in which the side to move shuffled the piece of its key move `m` (X->Y):
/// Y->X, d1, X->Y, d2, Y->X, d3 with three different quiet defender moves. Such a history leaves the position
/// itself new (the defender made progress), so no repetition rule applies, but the mover's record is a shuffle.
pub fn shuffle_history(root: &Pos, m: &Mv) -> Option<RootSpec> {
    if m.kind != MvKind::Normal || m.captured != 0 || kind_of(m.piece) == P || kind_of(m.piece) == K {
        return None;
    }
    let att = root.white;
    let (x, y) = (m.from, m.to);
    let flip = |p: &Pos, from: u8, to: u8, side_after: bool| -> Option<Pos> {
        if p.b[from as usize] == 0 || p.b[to as usize] != 0 {
            return None;
        }
        let mut q = *p;
        q.b[to as usize] = q.b[from as usize];
        q.b[from as usize] = 0;
        q.white = side_after;
        q.ep = None;
        Some(q)
    };
    // backwards: undo d3, undo a3 (piece X->Y backwards means it stood on Y), undo d2, undo a2, undo d1, undo a1
    for (f3, t3) in unmoves(root, !att) {
        let Some(p1) = flip(root, f3, t3, !att) else { continue }; // defender to move, before d3
        let Some(p2) = flip(&p1, x, y, att) else { continue }; // attacker to move, piece on Y, before a3 = Y->X
        for (f2, t2) in unmoves(&p2, !att) {
            if (f2, t2) == (f3, t3) {
                continue;
            }
            let Some(p3) = flip(&p2, f2, t2, !att) else { continue };
            let Some(p4) = flip(&p3, y, x, att) else { continue }; // before a2 = X->Y the piece stood on X
            for (f1, t1) in unmoves(&p4, !att) {
                let Some(p5) = flip(&p4, f1, t1, !att) else { continue };
                let Some(p6) = flip(&p5, x, y, att) else { continue }; // before a1 = Y->X the piece stood on Y
                if !p6.sane() {
                    continue;
                }
                // forward validation on the model
                let hist = [(y, x), (t1, f1), (x, y), (t2, f2), (y, x), (t3, f3)];
                // the defender's three moves must be pairwise different moves (so that the engine's own repetition rule stays silent)
                if (t1, f1) == (t3, f3) || (t1, f1) == (t2, f2) || (t2, f2) == (t3, f3) {
                    continue;
                }
                let mut cur = p6;
                let mut texts = vec![];
                let mut ok = true;
                for (from, to) in hist {
                    match cur.legal().into_iter().find(|mv| mv.from == from && mv.to == to && mv.kind == MvKind::Normal && mv.captured == 0) {
                        Some(mv) => {
                            texts.push(mv.uci());
                            cur = cur.apply(&mv).normalised();
                        }
                        None => {
                            ok = false;
                            break;
                        }
                    }
                }
                if ok && cur.key() == root.normalised().key() {
                    return Some(RootSpec { fen: p6.fen6(false), history: texts });
                }
            }
        }
    }
    None
}

/// the same root reached through a shuffle history of the mover: the mate must still be played
pub fn check_root_with_history(p: &Pos, class: Class, acc: &mut Acc) {
    if class != Class::MateIn1 {
        return;
    }
    for m in mating_moves(p) {
        let Some(spec) = shuffle_history(p, &m) else { continue };
        let Ok((game, pos)) = spec.build() else {
            acc.errors.push(format!("cannot build {}", spec.text()));
            continue;
        };
        if pos.key() != p.normalised().key() {
            acc.errors.push(format!("history {} does not end in {}", spec.text(), p.fen4(false)));
            continue;
        }
        acc.count("mate-in-1 roots reached through a shuffle history of the mover");
        let mates: Vec<String> = mating_moves(p).iter().map(|x| x.uci()).collect();
        for (limit, mode) in [(Some(3u8), "depth 3"), (None, "unlimited")] {
            let mut t = new_table();
            let run = run_search(&game, &mut t, &SearchCfg { max_depth: limit, stop_at: u64::MAX, depth_monitor: u32::MAX, watchdog: 3_000_000, tableless: false });
            acc.evaluations += 1;
            acc.transitions += 1;
            let replay = json::obj(vec![("kind", json::s("c10-history")), ("fen", json::s(spec.fen.clone())), ("history", json::s(spec.history.join(" ")))]);
            match &run.result {
                Err(pn) => acc.violation(format!("c10h-panic|{}", spec.text()), format!("search crashed: {} [{}]", pn, spec.text()), replay),
                Ok(Some(mv)) if mates.contains(mv) && !run.watchdog_fired => acc.outcome("mate-in-1 after shuffle history: played"),
                Ok(other) => {
                    acc.outcome("mate-in-1 after shuffle history: missed");
                    acc.violation(format!("c10h-missed|{}", spec.text()), format!("mate in one available ({:?}) in {} but after the game `{}` the engine ({}) answers {:?}{}", mates, p.fen4(false), spec.text(), mode, other, if run.watchdog_fired { " and does not stop by itself" } else { "" }), replay);
                }
            }
        }
        break;
    }
}

/// Exhaustive short-game enumeration: from `start` (attacker to move) the attacker shuffles one piece Y->X, X->Y, Y->X
/// while the defender plays every legal move; every final position in which X->Y has become checkmate (it was not
/// before: the defender's own moves built the net) is returned with its six-ply history.
pub fn shuffle_games(start: &str) -> Vec<(RootSpec, Pos, String)> {
    let mut out = vec![];
    let Ok(parsed) = parse_fen_strict(start) else { return out };
    let s0 = parsed.pos.normalised();
    let quiet = |m: &Mv| m.kind == MvKind::Normal && m.captured == 0 && kind_of(m.piece) != P && kind_of(m.piece) != K;
    for a1 in s0.legal().into_iter().filter(|m| quiet(m)) {
        let (y, x) = (a1.from, a1.to);
        let p1 = s0.apply(&a1).normalised();
        for d1 in p1.legal() {
            let p2 = p1.apply(&d1).normalised();
            let Some(a2) = p2.legal().into_iter().find(|m| m.from == x && m.to == y && quiet(m)) else { continue };
            let p3 = p2.apply(&a2).normalised();
            for d2 in p3.legal() {
                if d2.uci() == d1.uci() {
                    continue;
                }
                let p4 = p3.apply(&d2).normalised();
                let Some(a3) = p4.legal().into_iter().find(|m| m.from == y && m.to == x && quiet(m)) else { continue };
                let p5 = p4.apply(&a3).normalised();
                for d3 in p5.legal() {
                    if d3.uci() == d1.uci() || d3.uci() == d2.uci() {
                        continue;
                    }
                    let r = p5.apply(&d3).normalised();
                    let Some(m) = r.legal().into_iter().find(|m| m.from == x && m.to == y) else { continue };
                    let after = r.apply(&m);
                    if after.in_check(after.white) && after.legal().is_empty() {
                        let hist = vec![a1.uci(), d1.uci(), a2.uci(), d2.uci(), a3.uci(), d3.uci()];
                        out.push((RootSpec { fen: s0.fen6(false), history: hist }, r, m.uci()));
                    }
                }
            }
        }
    }
    out
}

pub const SHUFFLE_STARTS: [&str; 12] = [
    "rnbqkbnr/1ppppppp/p7/7Q/4P3/8/PPPP1PPP/RNB1KBNR w KQkq - 0 3",
    "rnbqkbnr/pppp1ppp/8/4p2Q/4P3/8/PPPP1PPP/RNB1KBNR w KQkq - 0 3",
    "6k1/5ppp/8/7Q/8/8/5PPP/6K1 w - - 0 1",
    "5rk1/5ppp/8/8/8/3Q4/5PPP/6K1 w - - 0 1",
    "4k3/3ppp2/8/8/7Q/8/5PPP/6K1 w - - 0 1",
    "7k/6pp/8/8/8/2R5/6PP/6K1 w - - 0 1",
    "rnbqkbnr/1ppppppp/p7/8/4P3/8/PPPP1PPP/RNBQKBNR w KQkq - 0 2",
    "6k1/5ppp/8/8/8/8/5PPP/3Q2K1 w - - 0 1",
    "5rk1/5ppp/8/8/8/8/5PPP/3Q2K1 w - - 0 1",
    "4k3/3ppp2/8/8/8/8/5PPP/3Q2K1 w - - 0 1",
    "7k/6pp/8/8/8/8/6PP/2R3K1 w - - 0 1",
    "r1bqkb1r/pppp1ppp/2n2n2/4p3/2B1P3/8/PPPP1PPP/RNBQK1NR w KQkq - 4 4",
];

pub fn check_game_root(spec: &RootSpec, r: &Pos, key_move: &str, acc: &mut Acc) {
    let Ok((game, pos)) = spec.build() else {
        acc.errors.push(format!("cannot build {}", spec.text()));
        return;
    };
    if pos.key() != r.key() {
        acc.errors.push(format!("history {} does not end in {}", spec.text(), r.fen4(false)));
        return;
    }
    acc.states += 1;
    let mates: Vec<String> = mating_moves(r).iter().map(|x| x.uci()).collect();
    for (limit, mode) in [(Some(3u8), "depth 3"), (None, "unlimited")] {
        let mut t = new_table();
        let run = run_search(&game, &mut t, &SearchCfg { max_depth: limit, stop_at: u64::MAX, depth_monitor: u32::MAX, watchdog: 60_000, tableless: false });
        acc.evaluations += 1;
        acc.transitions += 1;
        let replay = json::obj(vec![("kind", json::s("c10-game")), ("fen", json::s(spec.fen.clone())), ("history", json::s(spec.history.join(" "))), ("key_move", json::s(key_move))]);
        match &run.result {
            Err(pn) => acc.violation(format!("c10g-panic|{}", spec.text()), format!("search crashed: {} [{}]", pn, spec.text()), replay),
            Ok(Some(mv)) if mates.contains(mv) && !run.watchdog_fired => acc.outcome("mate-in-1 at the end of a shuffle game: played"),
            Ok(other) => {
                acc.outcome("mate-in-1 at the end of a shuffle game: missed");
                acc.violation(format!("c10g-missed|{}", spec.text()), format!("mate in one available ({:?}) in {} but after the game `{}` the engine ({}) answers {:?}{}", mates, r.fen4(false), spec.text(), mode, other, if run.watchdog_fired { " and does not stop by itself" } else { "" }), replay);
            }
        }
    }
}

fn rj(fen: &str) -> J {
    json::obj(vec![("kind", json::s("c10-root")), ("fen", json::s(fen))])
}

pub fn check_root(p: &Pos, class: Class, solver: &mut Solver, acc: &mut Acc) {
    check_root_counters(p, class, solver, acc, None)
}

/// the move counters a FEN carries are no reason to miss a mate or to invent a move: the same check with the halfmove
/// clock / fullmove number of the root's text set to a pair of a boundary grid
pub const COUNTER_GRID: [(u32, u32); 8] = [(97, 80), (98, 80), (99, 80), (100, 80), (101, 90), (150, 200), (255, 300), (9999, 9999)];

pub fn check_root_counters(p: &Pos, class: Class, solver: &mut Solver, acc: &mut Acc, counters: Option<(u32, u32)>) {
    let fen = match counters {
        None => p.fen6(false),
        Some((h, f)) => format!("{} {} {}", p.fen4(false), h, f),
    };
    let g = match counters {
        None => load(p).ok(),
        Some(_) => match guarded(|| Game::new(&fen)) {
            Ok(Ok(g)) => Some(g),
            _ => None,
        },
    };
    let Some(g) = g else {
        if counters.is_none() {
            acc.errors.push(format!("cannot load {}", fen));
        } else {
            acc.count("roots with move counters that the reader refuses or crashes on (C17's business)");
        }
        return;
    };
    if counters.is_some() {
        acc.count("roots searched again with move counters in their FEN");
    }
    let modes: Vec<(Option<u8>, &str)> = match class {
        Class::MateIn1 => vec![(None, "unlimited"), (Some(3), "depth 3")],
        Class::MateIn2 => vec![(None, "unlimited"), (Some(5), "depth 5")],
        _ => vec![(None, "unlimited"), (Some(3), "depth 3")],
    };
    for (limit, mode) in modes {
        let mut t = new_table();
        let cfg = SearchCfg { max_depth: limit, stop_at: u64::MAX, depth_monitor: u32::MAX, watchdog: if class == Class::MateIn2 { 3_000_000 } else { 300_000 }, tableless: false };
        let run = run_search(&g, &mut t, &cfg);
        acc.evaluations += 1;
        acc.transitions += 1;
        let its = info_depths(&run.transcript).into_iter().max().unwrap_or(0);
        let mv = match &run.result {
            Err(pn) => {
                acc.violation(format!("c10-panic|{}", fen), format!("search crashed: {} [{} {}]", pn, fen, mode), rj(&fen));
                continue;
            }
            Ok(m) => m.clone(),
        };
        match class {
            Class::Checkmated | Class::Stalemated => {
                acc.outcome(format!("{:?}: {:?}", class, mv.is_some()));
                if let Some(m) = mv {
                    acc.violation(format!("c10-invented|{}", fen), format!("position without legal moves ({:?}) but the engine announces {} [{} {}]", class, m, fen, mode), rj(&fen));
                }
            }
            Class::MateIn1 => {
                if run.watchdog_fired {
                    acc.violation(format!("c10-m1-runon|{}", fen), format!("mate in one available but the unlimited search did not stop by itself within {} polls [{}]", run.polls, fen), rj(&fen));
                    continue;
                }
                let Some(m) = mv else {
                    acc.violation(format!("c10-m1-none|{}", fen), format!("mate in one available but no move announced [{} {}]", fen, mode), rj(&fen));
                    continue;
                };
                let mates: Vec<String> = mating_moves(p).iter().map(|x| x.uci()).collect();
                if mating_moves(p).iter().all(|x| matches!(x.kind, MvKind::CastleShort | MvKind::CastleLong)) {
                    acc.count(&format!("mate-in-1 roots whose only mating move is castling ({})", mates.join(" ")));
                }
                if !mates.contains(&m) {
                    acc.outcome("mate-in-1 missed");
                    acc.violation(format!("c10-m1-missed|{}", fen), format!("mate in one available ({:?}) but the engine plays {} [{} {}; iterations {}]", mates, m, fen, mode, its), rj(&fen));
                } else {
                    acc.outcome("mate-in-1 played");
                }
                if limit.is_none() && its > 3 {
                    acc.violation(format!("c10-m1-late|{}", fen), format!("mate in one: the search only stopped at iteration {} (> 3) [{}]", its, fen), rj(&fen));
                }
            }
            Class::MateIn2 => {
                if run.watchdog_fired {
                    acc.violation(format!("c10-m2-runon|{}", fen), format!("forced mate in two available but the unlimited search did not stop by itself within {} polls [{}]", run.polls, fen), rj(&fen));
                    continue;
                }
                let Some(m) = mv else {
                    acc.violation(format!("c10-m2-none|{}", fen), format!("forced mate in two available but no move announced [{} {}]", fen, mode), rj(&fen));
                    continue;
                };
                let Some(mm) = p.legal().into_iter().find(|x| x.uci() == m) else {
                    acc.violation(format!("c10-m2-illegal|{}", fen), format!("announced {} is not legal [{}]", m, fen), rj(&fen));
                    continue;
                };
                let after = p.apply(&mm).normalised();
                // distance after the move: 1 = every reply allows mate in one (i.e. the optimal mate in two)
                let mut dist = 0;
                for n in 0..=3u8 {
                    if solver.opponent_lost(&after, n) {
                        dist = n + 1;
                        break;
                    }
                }
                if dist == 0 {
                    acc.outcome("mate-in-2 spoiled");
                    acc.violation(format!("c10-m2-lost|{}", fen), format!("forced mate in two available but after the engine's {} no forced mate within three further moves remains [{} {}; iterations {}]", m, fen, mode, its), rj(&fen));
                } else {
                    acc.outcome(format!("mate-in-2 kept, mate distance after the move {}", dist));
                    if dist > 2 {
                        acc.count("mate_distance_regressions (forced mate kept but longer than mate-in-2; O1, not a violation)");
                    }
                }
                if limit.is_none() && its > 5 {
                    acc.violation(format!("c10-m2-late|{}", fen), format!("forced mate in two: the search only stopped at iteration {} (> 5) [{}]", its, fen), rj(&fen));
                }
            }
            Class::Other => {}
        }
    }
}

pub fn run(tier: &str, seed: i64) -> Outcome {
    let q = tier == "quick";
    let off = seed.unsigned_abs();
    let spaces = vec![
        Space::slice(Universe::U3, if q { 8 } else { 1 }, off),
        Space::slice(Universe::UC { extras: 1 }, if q { 2 } else { 1 }, off),
        Space::slice(Universe::U4 { a: code(Q, true), b: code(R, false), files: Some((3, 4)) }, if q { 40 } else { 2 }, off),
        Space::slice(Universe::U4 { a: code(R, true), b: code(R, false), files: Some((3, 4)) }, if q { 40 } else { 2 }, off),
        Space::slice(Universe::U4 { a: code(R, true), b: code(B, false), files: Some((3, 4)) }, if q { 40 } else { 2 }, off),
        Space::slice(Universe::U4 { a: code(Q, true), b: code(Q, false), files: Some((3, 4)) }, if q { 40 } else { 2 }, off),
        Space::slice(Universe::U2, if q { 4 } else { 1 }, off),
        // the castling side with the enemy king anywhere and one more piece: mates in one (and keys of mates in two)
        // that are castling moves - they exist only as long as the right is read and kept correctly
        Space::all(Universe::UCK { extras: 1 }),
        // the whole board for the second piece: mates that need the defender to be in zugzwang WITH a piece of his own
        // (the piece must move and unguard) - forward pruning that lets the defender "pass" loses exactly these
        Space::slice(Universe::U4 { a: code(Q, true), b: code(N, false), files: None }, if q { 192 } else { 6 }, off),
        Space::slice(Universe::U4 { a: code(R, true), b: code(N, false), files: None }, if q { 192 } else { 6 }, off),
        Space::slice(Universe::U4 { a: code(Q, true), b: code(B, false), files: None }, if q { 192 } else { 6 }, off),
        Space::slice(Universe::U4 { a: code(Q, true), b: code(R, false), files: None }, if q { 192 } else { 6 }, off),
        Space::slice(Universe::U4 { a: code(Q, false), b: code(N, true), files: None }, if q { 192 } else { 6 }, off),
        // bare minor pieces: mate cannot be forced there, but mating positions and mates in one exist (KB v KN, KB v KB,
        // KN v KN, KNN v K) - "insufficient material" is not "no mate on the board"
        Space::slice(Universe::U4 { a: code(B, true), b: code(N, false), files: None }, if q { 96 } else { 2 }, off),
        Space::slice(Universe::U4 { a: code(B, true), b: code(B, false), files: None }, if q { 96 } else { 2 }, off),
        Space::slice(Universe::U4 { a: code(N, true), b: code(N, false), files: None }, if q { 96 } else { 2 }, off),
        Space::slice(Universe::U4 { a: code(N, true), b: code(N, true), files: None }, if q { 96 } else { 2 }, off),
        Space::slice(Universe::U4 { a: code(N, false), b: code(B, true), files: None }, if q { 192 } else { 4 }, off),
        Space::slice(Universe::UZ { a: B, b: B, d: N }, if q { 384 } else { 6 }, off),
        Space::slice(Universe::UZ { a: B, b: N, d: N }, if q { 768 } else { 6 }, off),
        Space::slice(Universe::UZ { a: R, b: N, d: N }, if q { 768 } else { 6 }, off),
        Space::slice(Universe::UZ { a: R, b: B, d: B }, if q { 768 } else { 6 }, off),
    ];
    let (acc, reports) = run_spaces(&spaces, &|ctx, acc| {
        // kinds that cannot mate with a bare king are classified too (they yield only stalemates): keep Q, R, P and all UC/U4 members
        if ctx.space.starts_with("U3") {
            let extra = ctx.pos.b.iter().find(|&&c| c != 0 && kind_of(c) != K).copied().unwrap_or(0);
            if extra != 0 && !(kind_of(extra) == Q || kind_of(extra) == R || kind_of(extra) == P) {
                return;
            }
        }
        thread_local! { static SOLVER: std::cell::RefCell<Solver> = std::cell::RefCell::new(Solver::new()); }
        SOLVER.with(|s| {
            let mut s = s.borrow_mut();
            if s.memo.len() > 2_000_000 {
                s.memo.clear();
            }
            let class = classify(ctx.pos, &mut s);
            acc.count(&format!("class {:?}", class));
            // the zugzwang family is there for its mates in two (and dead positions); its many mates in one add nothing
            let skip = ctx.space.starts_with("UZ") && class == Class::MateIn1;
            if class != Class::Other && !skip {
                check_root(ctx.pos, class, &mut s, acc);
                check_root_with_history(ctx.pos, class, acc);
                // a fixed eighth of the roots (chosen by the position itself, not by the order of the enumeration)
                let k: u32 = ctx.pos.key().iter().map(|&b| b as u32).sum();
                if k % 8 == 0 {
                    check_root_counters(ctx.pos, class, &mut s, acc, Some(COUNTER_GRID[((k / 8) % 8) as usize]));
                }
                if acc.samples.len() < 3 {
                    acc.sample(json::obj(vec![("root", json::s(ctx.pos.fen6(false))), ("class", json::s(format!("{:?}", class)))]));
                }
            }
        });
    });
    let (mut acc, mut reports) = (acc, reports);
    // shuffle games: all short games in which the mover shuffles one piece and the defender's own moves build the net
    let t0 = std::time::Instant::now();
    let starts: Vec<String> = SHUFFLE_STARTS.iter().flat_map(|s| {
        let mut v = vec![s.to_string()];
        if let Ok(p) = parse_fen_strict(s) {
            v.push(p.pos.mirror().fen6(false));
        }
        v
    }).collect();
    let starts = if q { starts[..12].to_vec() } else { starts };
    let games = par_items(&starts, &|_, st, acc| {
        for (spec, r, key) in shuffle_games(st) {
            acc.count("final positions of shuffle games with a fresh mate in one");
            check_game_root(&spec, &r, &key, acc);
            if acc.samples.len() < 1 {
                acc.sample(json::obj(vec![("game", json::s(spec.text())), ("mate", json::s(key.clone()))]));
            }
        }
    });
    reports.push(SpaceReport { name: format!("shuffle games from {} start positions: every 6-ply game Y->X d1 X->Y d2 Y->X d3 (all defender moves) whose final position has X->Y as a new mate in one", starts.len()), states: games.states, exhaustive: true, note: format!("[{:.1}s]", t0.elapsed().as_secs_f64()) });
    acc.merge(games);
    let mut out = Outcome::new(acc, reports, "every member of the listed spaces is classified by the reference model's own solver (mate in 1 / forced mate in 2 / checkmated / stalemated / other); every member of the first four classes is searched by the real engine from a fresh table, unlimited (under a poll watchdog) and with the explicit depth limit 3 resp. 5: a mate in one must be played and the search must stop by iteration 3; with a forced mate in two the move played must keep a forced mate (AND/OR search on the model, within three further moves) and the search must stop by iteration 5; dead positions must yield no move; every mate-in-1 root for which a six-ply history exists in which the mover shuffled the mating piece (and the defender made three different quiet moves) is searched again with that history: the mate must still be played");
    out.traces_validated = out.acc.transitions;
    out.assumptions = vec!["'keeps the forced mate' is read as: a forced mate still exists after the move (distance may grow; such cases are counted as mate_distance_regressions, DESIGN.md O1)".into(), "<= 4 men (plus the castling family with one extra piece)".into()];
    out
}

pub fn replay(j: &J) -> Result<Acc, String> {
    let fen = j.get("fen").and_then(|x| x.as_str()).ok_or("fen")?;
    if j.get("kind").and_then(|x| x.as_str()) == Some("c10-game") {
        let spec = RootSpec::with(fen, j.get("history").and_then(|x| x.as_str()).unwrap_or(""));
        let (_, pos) = spec.build()?;
        let mut acc = Acc::new();
        check_game_root(&spec, &pos, j.get("key_move").and_then(|x| x.as_str()).unwrap_or(""), &mut acc);
        return Ok(acc);
    }
    if j.get("kind").and_then(|x| x.as_str()) == Some("c10-history") {
        let spec = RootSpec::with(fen, j.get("history").and_then(|x| x.as_str()).unwrap_or(""));
        let (_, pos) = spec.build()?;
        let mut acc = Acc::new();
        check_root_with_history(&pos, Class::MateIn1, &mut acc);
        return Ok(acc);
    }
    let p = parse_fen_strict(fen)?.pos.normalised();
    let mut s = Solver::new();
    let class = classify(&p, &mut s);
    let mut acc = Acc::new();
    out!("  class {:?}", class);
    // the replay's FEN carries the counters the failing run used
    let f: Vec<&str> = fen.split_whitespace().collect();
    let counters = match (f.get(4).and_then(|x| x.parse::<u32>().ok()), f.get(5).and_then(|x| x.parse::<u32>().ok())) {
        (Some(h), Some(m)) if (h, m) != (0, 1) => Some((h, m)),
        _ => None,
    };
    check_root_counters(&p, class, &mut s, &mut acc, counters);
    Ok(acc)
}
