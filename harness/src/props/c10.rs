//! C10: forced mates within the horizon are found; dead positions are reported as such.
//! The model's own solver classifies every member of the universes; every
//! mate-in-1, forced-mate-in-2, checkmated and stalemated member is searched
//! with the real engine from a fresh table.
#![allow(dead_code)]

use crate::bind::*;
use crate::explore::*;
use crate::json::{self, J};
use crate::props::core::*;
use crate::refchess::*;
use crate::report::Outcome;
use crate::srch::*;
use crate::universe::Universe;
use std::collections::HashMap;

/// moves that give checkmate at once
pub fn mating_moves(p: &Pos) -> Vec<Mv> {
    let mut v = vec![];
    for m in p.legal() {
        let n = p.apply(&m);
        if n.in_check(n.white) && n.legal().is_empty() {
            v.push(m);
        }
    }
    v
}

pub struct Solver {
    memo: HashMap<([u8; 34], u8), bool>,
}

impl Solver {
    pub fn new() -> Solver {
        Solver { memo: HashMap::new() }
    }
    /// side to move can force checkmate within n own moves
    pub fn mate_in(&mut self, p: &Pos, n: u8) -> bool {
        if n == 0 {
            return false;
        }
        let k = (p.key(), n);
        if let Some(&r) = self.memo.get(&k) {
            return r;
        }
        let mut res = false;
        for m in p.legal() {
            let after = p.apply(&m).normalised();
            if self.opponent_lost(&after, n - 1) {
                res = true;
                break;
            }
        }
        self.memo.insert(k, res);
        res
    }
    /// `p`: the defender is to move. True iff the defender is checkmated now, or (n > 0 and) has replies and
    /// after every reply the attacker can force mate within n own moves.
    pub fn opponent_lost(&mut self, p: &Pos, n: u8) -> bool {
        let replies = p.legal();
        if replies.is_empty() {
            return p.in_check(p.white);
        }
        if n == 0 {
            return false;
        }
        for r in replies {
            let after = p.apply(&r).normalised();
            if !self.mate_in(&after, n) {
                return false;
            }
        }
        true
    }
}

#[derive(Debug, Clone, Copy, PartialEq)]
pub enum Class {
    MateIn1,
    MateIn2,
    Checkmated,
    Stalemated,
    Other,
}

pub fn classify(p: &Pos, s: &mut Solver) -> Class {
    let legal = p.legal();
    if legal.is_empty() {
        return if p.in_check(p.white) { Class::Checkmated } else { Class::Stalemated };
    }
    if !mating_moves(p).is_empty() {
        return Class::MateIn1;
    }
    // mate in 2: some move after which every reply allows mate in 1 (cheap early exits)
    for m in &legal {
        let after = p.apply(m).normalised();
        let replies = after.legal();
        if replies.is_empty() {
            continue; // stalemate (mate would have been mate-in-1)
        }
        let mut all = true;
        for r in &replies {
            let a2 = after.apply(r).normalised();
            if mating_moves_exist(&a2) {
                continue;
            }
            all = false;
            break;
        }
        if all {
            let _ = s;
            return Class::MateIn2;
        }
    }
    Class::Other
}

fn mating_moves_exist(p: &Pos) -> bool {
    for m in p.legal() {
        let n = p.apply(&m);
        if n.in_check(n.white) && n.legal().is_empty() {
            return true;
        }
    }
    false
}

fn rj(fen: &str) -> J {
    json::obj(vec![("kind", json::s("c10-root")), ("fen", json::s(fen))])
}

pub fn check_root(p: &Pos, class: Class, solver: &mut Solver, acc: &mut Acc) {
    let fen = p.fen6(false);
    let Ok(g) = load(p) else {
        acc.errors.push(format!("cannot load {}", fen));
        return;
    };
    let modes: Vec<(Option<u8>, &str)> = match class {
        Class::MateIn1 => vec![(None, "unlimited"), (Some(3), "depth 3")],
        Class::MateIn2 => vec![(None, "unlimited"), (Some(5), "depth 5")],
        _ => vec![(None, "unlimited"), (Some(3), "depth 3")],
    };
    for (limit, mode) in modes {
        let mut t = new_table();
        let cfg = SearchCfg { max_depth: limit, stop_at: u64::MAX, depth_monitor: u32::MAX, watchdog: 20_000_000, tableless: false };
        let run = run_search(&g, &mut t, &cfg);
        acc.evaluations += 1;
        acc.transitions += 1;
        let its = info_depths(&run.transcript).into_iter().max().unwrap_or(0);
        let mv = match &run.result {
            Err(pn) => {
                acc.violation(format!("c10-panic|{}", fen), format!("search crashed: {} [{} {}]", pn, fen, mode), rj(&fen));
                continue;
            }
            Ok(m) => m.clone(),
        };
        match class {
            Class::Checkmated | Class::Stalemated => {
                acc.outcome(format!("{:?}: {:?}", class, mv.is_some()));
                if let Some(m) = mv {
                    acc.violation(format!("c10-invented|{}", fen), format!("position without legal moves ({:?}) but the engine announces {} [{} {}]", class, m, fen, mode), rj(&fen));
                }
            }
            Class::MateIn1 => {
                if run.watchdog_fired {
                    acc.violation(format!("c10-m1-runon|{}", fen), format!("mate in one available but the unlimited search did not stop by itself within {} polls [{}]", run.polls, fen), rj(&fen));
                    continue;
                }
                let Some(m) = mv else {
                    acc.violation(format!("c10-m1-none|{}", fen), format!("mate in one available but no move announced [{} {}]", fen, mode), rj(&fen));
                    continue;
                };
                let mates: Vec<String> = mating_moves(p).iter().map(|x| x.uci()).collect();
                if !mates.contains(&m) {
                    acc.outcome("mate-in-1 missed");
                    acc.violation(format!("c10-m1-missed|{}", fen), format!("mate in one available ({:?}) but the engine plays {} [{} {}; iterations {}]", mates, m, fen, mode, its), rj(&fen));
                } else {
                    acc.outcome("mate-in-1 played");
                }
                if limit.is_none() && its > 3 {
                    acc.violation(format!("c10-m1-late|{}", fen), format!("mate in one: the search only stopped at iteration {} (> 3) [{}]", its, fen), rj(&fen));
                }
            }
            Class::MateIn2 => {
                if run.watchdog_fired {
                    acc.violation(format!("c10-m2-runon|{}", fen), format!("forced mate in two available but the unlimited search did not stop by itself within {} polls [{}]", run.polls, fen), rj(&fen));
                    continue;
                }
                let Some(m) = mv else {
                    acc.violation(format!("c10-m2-none|{}", fen), format!("forced mate in two available but no move announced [{} {}]", fen, mode), rj(&fen));
                    continue;
                };
                let Some(mm) = p.legal().into_iter().find(|x| x.uci() == m) else {
                    acc.violation(format!("c10-m2-illegal|{}", fen), format!("announced {} is not legal [{}]", m, fen), rj(&fen));
                    continue;
                };
                let after = p.apply(&mm).normalised();
                // distance after the move: 1 = every reply allows mate in one (i.e. the optimal mate in two)
                let mut dist = 0;
                for n in 0..=3u8 {
                    if solver.opponent_lost(&after, n) {
                        dist = n + 1;
                        break;
                    }
                }
                if dist == 0 {
                    acc.outcome("mate-in-2 spoiled");
                    acc.violation(format!("c10-m2-lost|{}", fen), format!("forced mate in two available but after the engine's {} no forced mate within three further moves remains [{} {}; iterations {}]", m, fen, mode, its), rj(&fen));
                } else {
                    acc.outcome(format!("mate-in-2 kept, mate distance after the move {}", dist));
                    if dist > 2 {
                        acc.count("mate_distance_regressions (forced mate kept but longer than mate-in-2; O1, not a violation)");
                    }
                }
                if limit.is_none() && its > 5 {
                    acc.violation(format!("c10-m2-late|{}", fen), format!("forced mate in two: the search only stopped at iteration {} (> 5) [{}]", its, fen), rj(&fen));
                }
            }
            Class::Other => {}
        }
    }
}

pub fn run(tier: &str, seed: i64) -> Outcome {
    let q = tier == "quick";
    let off = seed.unsigned_abs();
    let spaces = vec![
        Space::slice(Universe::U3, if q { 8 } else { 1 }, off),
        Space::slice(Universe::UC { extras: 1 }, if q { 2 } else { 1 }, off),
        Space::slice(Universe::U4 { a: code(Q, true), b: code(R, false), files: Some((3, 4)) }, if q { 40 } else { 2 }, off),
        Space::slice(Universe::U4 { a: code(R, true), b: code(R, false), files: Some((3, 4)) }, if q { 40 } else { 2 }, off),
        Space::slice(Universe::U4 { a: code(R, true), b: code(B, false), files: Some((3, 4)) }, if q { 40 } else { 2 }, off),
        Space::slice(Universe::U4 { a: code(Q, true), b: code(Q, false), files: Some((3, 4)) }, if q { 40 } else { 2 }, off),
        Space::slice(Universe::U2, if q { 4 } else { 1 }, off),
    ];
    let (acc, reports) = run_spaces(&spaces, &|ctx, acc| {
        // kinds that cannot mate with a bare king are classified too (they yield only stalemates): keep Q, R, P and all UC/U4 members
        if ctx.space.starts_with("U3") {
            let extra = ctx.pos.b.iter().find(|&&c| c != 0 && kind_of(c) != K).copied().unwrap_or(0);
            if extra != 0 && !(kind_of(extra) == Q || kind_of(extra) == R || kind_of(extra) == P) {
                return;
            }
        }
        thread_local! { static SOLVER: std::cell::RefCell<Solver> = std::cell::RefCell::new(Solver::new()); }
        SOLVER.with(|s| {
            let mut s = s.borrow_mut();
            if s.memo.len() > 2_000_000 {
                s.memo.clear();
            }
            let class = classify(ctx.pos, &mut s);
            acc.count(&format!("class {:?}", class));
            if class != Class::Other {
                check_root(ctx.pos, class, &mut s, acc);
                if acc.samples.len() < 3 {
                    acc.sample(json::obj(vec![("root", json::s(ctx.pos.fen6(false))), ("class", json::s(format!("{:?}", class)))]));
                }
            }
        });
    });
    let mut out = Outcome::new(acc, reports, "every member of the listed spaces is classified by the reference model's own solver (mate in 1 / forced mate in 2 / checkmated / stalemated / other); every member of the first four classes is searched by the real engine from a fresh table, unlimited (under a poll watchdog) and with the explicit depth limit 3 resp. 5: a mate in one must be played and the search must stop by iteration 3; with a forced mate in two the move played must keep a forced mate (AND/OR search on the model, within three further moves) and the search must stop by iteration 5; dead positions must yield no move");
    out.traces_validated = out.acc.transitions;
    out.assumptions = vec!["'keeps the forced mate' is read as: a forced mate still exists after the move (distance may grow; such cases are counted as mate_distance_regressions, DESIGN.md O1)".into(), "<= 4 men (plus the castling family with one extra piece)".into()];
    out
}

pub fn replay(j: &J) -> Result<Acc, String> {
    let fen = j.get("fen").and_then(|x| x.as_str()).ok_or("fen")?;
    let p = parse_fen_strict(fen)?.pos.normalised();
    let mut s = Solver::new();
    let class = classify(&p, &mut s);
    let mut acc = Acc::new();
    out!("  class {:?}", class);
    check_root(&p, class, &mut s, &mut acc);
    Ok(acc)
}
