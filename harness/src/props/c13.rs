//! C13: thinking time never exceeds the time available.
//! E6: full Cartesian boundary grids for (wtime, btime, winc, binc) x side,
//! movetime, movetime x clock, each driven through the real `command_go`
//! (uci_talk under the scheduler's default schedule), in both build flavours;
//! plus E5 scripts with time budgets for "announced within it" in virtual time.
#![allow(dead_code)]

use crate::explore::*;
use crate::json::{self, J};
use crate::props::c14;
use crate::report::Outcome;
use crate::sched::{self, line, Ev, Guard, Line};

pub fn flavour() -> &'static str {
    if cfg!(debug_assertions) {
        "checked"
    } else {
        "plain"
    }
}

pub fn grid(tier: &str) -> Vec<u64> {
    if tier == "quick" {
        vec![0, 1, 149, 150, 151, 7_499, 7_500, 7_501, 60_000, 1 << 31, (1u64 << 53) + 1, u64::MAX]
    } else {
        vec![0, 1, 4, 5, 6, 149, 150, 151, 155, 156, 7_499, 7_500, 7_501, 7_750, 10_000, 60_000, 3_600_000, 1 << 31, 1 << 53, (1u64 << 53) + 1, 1 << 63, u64::MAX]
    }
}

#[derive(Clone, Debug)]
pub struct Case {
    pub white: bool,
    pub go: String,
    /// the most the engine may allot itself: the mover's clock, or the movetime
    pub limit: u64,
    pub expect_timer: bool,
    pub clock_case: Option<(u64, u64, u64, u64)>,
    /// position to search (None = the quiet two-king roots)
    pub fen: Option<&'static str>,
}

pub fn cases(tier: &str) -> Vec<Case> {
    let g = grid(tier);
    let mut v = vec![];
    for &white in &[true, false] {
        for &wt in &g {
            for &bt in &g {
                for &wi in &g {
                    for &bi in &g {
                        v.push(Case { white, go: format!("go wtime {} btime {} winc {} binc {}", wt, bt, wi, bi), limit: if white { wt } else { bt }, expect_timer: true, clock_case: Some((wt, bt, wi, bi)), fen: None });
                    }
                }
            }
        }
        for &mt in &g {
            v.push(Case { white, go: format!("go movetime {}", mt), limit: mt, expect_timer: true, clock_case: None, fen: None });
            v.push(Case { white, go: format!("go movetime {} depth 1", mt), limit: mt, expect_timer: true, clock_case: None, fen: None });
            v.push(Case { white, go: format!("go movetime {} infinite", mt), limit: mt, expect_timer: false, clock_case: None, fen: None });
            for &c in &g {
                v.push(Case { white, go: format!("go wtime {} btime {} winc 0 binc 0 movetime {}", c, c, mt), limit: mt, expect_timer: true, clock_case: None, fen: None });
            }
        }
        // partial and permuted parameter lists: every UCI time parameter is optional ("a GUI can send" the clocks without
        // increments when the game has none, or with `movestogo`); whenever the mover's clock is given it bounds the budget
        let g2: [u64; 6] = [0, 1, 150, 7_500, 60_000, u64::MAX];
        let (me, opp, myinc, oppinc) = if white { ("wtime", "btime", "winc", "binc") } else { ("btime", "wtime", "binc", "winc") };
        for &x in &g2 {
            v.push(Case { white, go: format!("go {} {}", me, x), limit: x, expect_timer: true, clock_case: None, fen: None });
            v.push(Case { white, go: format!("go {} {} movestogo 40", me, x), limit: x, expect_timer: true, clock_case: None, fen: None });
            for &y in &g2 {
                v.push(Case { white, go: format!("go wtime {} btime {}", if white { x } else { y }, if white { y } else { x }), limit: x, expect_timer: true, clock_case: None, fen: None });
                v.push(Case { white, go: format!("go {} {} {} {}", me, x, myinc, y), limit: x, expect_timer: true, clock_case: None, fen: None });
                v.push(Case { white, go: format!("go {} {} {} {} {} {}", me, x, opp, x, myinc, y), limit: x, expect_timer: true, clock_case: None, fen: None });
                v.push(Case { white, go: format!("go {} {} {} {} {} {}", me, x, opp, x, oppinc, y), limit: x, expect_timer: true, clock_case: None, fen: None });
                v.push(Case { white, go: format!("go {} {} {} {} {} {} {} {}", oppinc, y, myinc, y, opp, y, me, x), limit: x, expect_timer: true, clock_case: None, fen: None });
                v.push(Case { white, go: format!("go wtime {} btime {} winc {} binc {} movestogo 1", x, x, y, y), limit: x, expect_timer: true, clock_case: None, fen: None });
            }
        }
        // standard UCI `go` sub-commands the engine does not implement (searchmoves with a move list, ponder, nodes, mate,
        // movestogo) before, between and after the clock parameters: whatever it does with them, the clock still binds
        let first_moves: [&str; 2] = if white { ["a1a2", "a1b1"] } else { ["a8a7", "a8b8"] };
        for &x in &[150u64, 3_000, 60_000] {
            for other in [format!("searchmoves {} {}", first_moves[0], first_moves[1]), format!("searchmoves {}", first_moves[0]), "ponder".to_string(), "nodes 100000".to_string(), "mate 3".to_string(), "movestogo 30".to_string()] {
                v.push(Case { white, go: format!("go {} {} {} {} {}", other, me, x, opp, x), limit: x, expect_timer: true, clock_case: None, fen: None });
                v.push(Case { white, go: format!("go {} {} {} {} {}", other, opp, x, me, x), limit: x, expect_timer: true, clock_case: None, fen: None });
                v.push(Case { white, go: format!("go {} {} {} {} {}", me, x, other, opp, x), limit: x, expect_timer: true, clock_case: None, fen: None });
                v.push(Case { white, go: format!("go {} {} {} {} {}", me, x, opp, x, other), limit: x, expect_timer: true, clock_case: None, fen: None });
                v.push(Case { white, go: format!("go {} movetime {}", other, x), limit: x, expect_timer: true, clock_case: None, fen: None });
                v.push(Case { white, go: format!("go movetime {} {}", x, other), limit: x, expect_timer: true, clock_case: None, fen: None });
            }
        }
        // the budget is a matter of the clocks alone: the same bound must hold in every kind of position (in check,
        // a single reply, mate in one on the board, rich middlegame, bare kings with a pawn race)
        let g3: [u64; 7] = [0, 150, 300, 1_000, 7_500, 60_000, u64::MAX];
        for fen in position_family(white) {
            for &x in &g3 {
                v.push(Case { white, go: format!("go movetime {}", x), limit: x, expect_timer: true, clock_case: None, fen: Some(fen) });
                for &y in &g3 {
                    for &i in &[0u64, 1_000, 60_000] {
                        v.push(Case { white, go: format!("go wtime {} btime {} winc {} binc {}", if white { x } else { y }, if white { y } else { x }, i, i), limit: x, expect_timer: true, clock_case: None, fen: Some(fen) });
                    }
                }
            }
        }
        for &c in &g {
            v.push(Case { white, go: format!("go wtime {} btime {} winc 0 binc 0 depth 1", c, c), limit: c, expect_timer: true, clock_case: Some((c, c, 0, 0)), fen: None });
            v.push(Case { white, go: format!("go wtime {} btime {} winc 0 binc 0 infinite", c, c), limit: c, expect_timer: false, clock_case: None, fen: None });
        }
    }
    v
}

/// positions of every "kind" for the side to move: in check with several replies, in check with a single reply, mate
/// in one available, castling/en-passant available, middlegame, the opponent in a mating net
pub fn position_family(white: bool) -> Vec<&'static str> {
    if white {
        vec![
            "rnbqk1nr/pppp1ppp/4p3/8/1bPP4/8/PP2PPPP/RNBQKBNR w KQkq - 1 3",
            "4k3/8/8/8/8/8/4r3/4K3 w - - 0 1",
            "8/8/8/8/8/1k6/r7/K7 w - - 0 1",
            "6k1/5ppp/8/8/8/8/5PPP/3R2K1 w - - 0 1",
            "r3k2r/p1ppqpb1/bn2pnp1/3PN3/1p2P3/2N2Q1p/PPPBBPPP/R3K2R w KQkq - 0 1",
            "4k3/8/8/3pP3/8/8/8/4K3 w - d6 0 1",
        ]
    } else {
        vec![
            "rnbqkbnr/ppp2ppp/8/1B1pp3/4P3/8/PPPP1PPP/RNBQK1NR b KQkq - 1 3",
            "4k3/4R3/8/8/8/8/8/4K3 b - - 0 1",
            "k7/R7/1K6/8/8/8/8/8 b - - 0 1",
            "3r2k1/5ppp/8/8/8/8/5PPP/6K1 b - - 0 1",
            "r3k2r/p1ppqpb1/bn2pnp1/3PN3/1p2P3/2N2Q1p/PPPBBPPP/R3K2R b KQkq - 0 1",
            "4k3/8/8/8/3Pp3/8/8/4K3 b - d3 0 1",
        ]
    }
}

const ROOT_W: &str = "7k/8/8/8/8/8/8/K7 w - - 0 1";
const ROOT_B: &str = "k7/8/8/8/8/8/8/7K b - - 0 1";

fn rj(c: &Case) -> J {
    json::obj(vec![("kind", json::s("c13-case")), ("go", json::s(c.go.clone())), ("white_to_move", J::Bool(c.white)), ("flavour", json::s(flavour())), ("fen", match c.fen { Some(f) => json::s(f), None => J::Null })])
}

/// run a batch of cases in one engine session (default schedule); returns allotted budgets per case (None = no timer)
pub fn run_batch(batch: &[Case], acc: &mut Acc) -> Vec<Option<u128>> {
    let mut out = vec![];
    // one session per case group; a case that kills the session is isolated by running cases singly afterwards
    let mut script: Vec<Line> = vec![];
    for c in batch {
        script.push(line(&format!("position fen {}", c.fen.unwrap_or(if c.white { ROOT_W } else { ROOT_B })), Guard::WhenAnswered));
        script.push(line(&c.go, Guard::WhenAnswered));
        if !c.expect_timer {
            script.push(line("stop", Guard::Now));
        }
    }
    script.push(line("quit", Guard::WhenAnswered));
    let e = sched::run(&script, &[], c14::HORIZON);
    let ok = e.verdict.is_none() && e.main_ok && e.panicked.is_empty();
    if !ok && batch.len() > 1 {
        for c in batch {
            out.extend(run_batch(std::slice::from_ref(c), acc));
        }
        return out;
    }
    if !ok {
        let c = &batch[0];
        let text = crate::bind::FOREIGN_PANICS.lock().map(|g| g.last().map(|x| x.1.clone()).unwrap_or_default()).unwrap_or_default();
        let what = e.verdict.clone().unwrap_or_else(|| "the command loop died".into());
        acc.outcome("engine dies");
        acc.violation(format!("{}|dies|{}|{}", flavour(), if c.white { "w" } else { "b" }, c.go), format!("[{} build] `{}` ({} to move): {} ({})", flavour(), c.go, if c.white { "white" } else { "black" }, what, text), rj(c));
        return vec![None];
    }
    // attribute `info time` lines and recorded budgets to the cases in order
    let infos: Vec<u128> = e.log.iter().filter_map(|ev| if let Ev::Out(0, t) = ev { crate::srch::parse_info(t).and_then(|i| i.time) } else { None }).collect();
    let mut k = 0;
    for c in batch {
        if c.expect_timer {
            let b = e.budgets.get(k).copied();
            let i = infos.get(k).copied();
            k += 1;
            match (b, i) {
                (Some(b), Some(i)) => {
                    if b != i {
                        acc.violation(format!("{}|info-mismatch|{}", flavour(), c.go), format!("[{} build] `{}`: printed `info time {}` but the timer was given {} ms", flavour(), c.go, i, b), rj(c));
                    }
                    out.push(Some(b));
                }
                _ => {
                    acc.violation(format!("{}|no-timer|{}", flavour(), c.go), format!("[{} build] `{}`: no time budget was set up (no `info time`, no timer)", flavour(), c.go), rj(c));
                    out.push(None);
                }
            }
        } else {
            out.push(None);
        }
    }
    if e.budgets.len() != k {
        acc.violation(format!("{}|extra-timer|{}", flavour(), batch[0].go), format!("[{} build] a timer was started for a `go ... infinite` in batch starting with `{}`", flavour(), batch[0].go), rj(&batch[0]));
    }
    let bm = e.log.iter().filter(|ev| matches!(ev, Ev::Out(_, t) if t.starts_with("bestmove"))).count();
    if bm != batch.len() {
        acc.violation(format!("{}|bestmoves|{}", flavour(), batch[0].go), format!("[{} build] {} go commands but {} bestmove lines (batch starting with `{}`)", flavour(), batch.len(), bm, batch[0].go), rj(&batch[0]));
    }
    out
}

pub fn judge(c: &Case, budget: Option<u128>, acc: &mut Acc) {
    acc.evaluations += 1;
    let Some(b) = budget else { return };
    acc.transitions += 1;
    if b > c.limit as u128 {
        acc.outcome("budget above the time available");
        // key by shape, not by value: one defect, one finding per flavour and mode
        let mode = if c.clock_case.is_some() { "clock" } else { "movetime" };
        acc.violation(format!("{}|over|{}|{}|{}", flavour(), mode, c.go, c.fen.unwrap_or("")), format!("[{} build] `{}` ({} to move{}): the engine allots itself {} ms but only {} ms are available", flavour(), c.go, if c.white { "white" } else { "black" }, c.fen.map(|f| format!(", position {}", f)).unwrap_or_default(), b, c.limit), rj(c));
    } else {
        acc.outcome(if b == 0 { "budget zero" } else if b == c.limit as u128 { "budget == limit" } else { "budget within limit" });
    }
}

pub fn run_shard(tier: &str, shard: usize, nshards: usize) -> Acc {
    let all = cases(tier);
    let mut acc = Acc::new();
    let mine: Vec<(usize, Case)> = all.into_iter().enumerate().filter(|(i, _)| (i / 32) % nshards == shard).collect();
    let mut budgets: Vec<(Case, Option<u128>)> = vec![];
    for chunk in mine.chunks(32) {
        let batch: Vec<Case> = chunk.iter().map(|(_, c)| c.clone()).collect();
        let b = run_batch(&batch, &mut acc);
        acc.states += 1;
        for (c, b) in batch.iter().zip(b.iter()) {
            judge(c, *b, &mut acc);
            budgets.push((c.clone(), *b));
        }
    }
    // monotonicity on consecutive grid points (winc = binc = 0): a lower clock never gets a longer budget
    let g = grid(tier);
    let lookup = |white: bool, t: u64| -> Option<u128> { budgets.iter().find(|(c, _)| c.white == white && c.clock_case == Some((t, t, 0, 0)) && !c.go.contains("depth")).and_then(|(_, b)| *b) };
    for &white in &[true, false] {
        for w in g.windows(2) {
            if let (Some(a), Some(b)) = (lookup(white, w[0]), lookup(white, w[1])) {
                acc.transitions += 1;
                if a > b {
                    acc.violation(format!("{}|monotone|{}|{}", flavour(), w[0], w[1]), format!("[{} build] clock {} ms gets {} ms thinking time but the larger clock {} ms gets only {} ms", flavour(), w[0], a, w[1], b), json::obj(vec![("kind", json::s("c13-case")), ("go", json::s(format!("go wtime {} btime {} winc 0 binc 0", w[0], w[0]))), ("white_to_move", J::Bool(white)), ("flavour", json::s(flavour()))]));
                }
            }
        }
    }
    if acc.samples.is_empty() {
        if let Some((c, b)) = budgets.first() {
            acc.sample(json::obj(vec![("go", json::s(c.go.clone())), ("white_to_move", J::Bool(c.white)), ("allotted_ms", match b { Some(b) => json::s(b.to_string()), None => J::Null }), ("available_ms", json::s(c.limit.to_string()))]));
        }
    }
    acc
}

/// E5 scripts with time budgets: "announced within it" in virtual time, all interleavings
pub fn timed_scripts() -> Vec<c14::Script> {
    let n = |t: &str| line(t, Guard::Now);
    let w = |t: &str| line(t, Guard::WhenAnswered);
    let p0 = format!("position fen {}", ROOT_W);
    let p1 = format!("position fen {}", ROOT_B);
    vec![
        c14::Script { name: "movetime".into(), lines: vec![n(&p0), n("go movetime 100"), w("quit")] },
        c14::Script { name: "clock".into(), lines: vec![n(&p0), n("go wtime 60000 btime 60000 winc 1000 binc 1000"), w("quit")] },
        c14::Script { name: "clock, black".into(), lines: vec![n(&p1), n("go wtime 60000 btime 60000 winc 0 binc 0"), w("quit")] },
        c14::Script { name: "low clock".into(), lines: vec![n(&p0), n("go wtime 1000 btime 1000 winc 0 binc 0"), w("quit")] },
        c14::Script { name: "two timed moves".into(), lines: vec![n(&p0), n("go movetime 50"), w(&p1), w("go movetime 50"), w("quit")] },
        c14::Script { name: "movetime with isready".into(), lines: vec![n(&p0), n("go movetime 100"), n("isready"), w("quit")] },
    ]
}

pub fn run(tier: &str, seed: i64) -> Outcome {
    let nshards = 16;
    let mk = |bin: &str| -> Acc {
        let args: Vec<Vec<String>> = (0..nshards).map(|i| vec!["C13".to_string(), tier.to_string(), seed.to_string(), "--worker".to_string(), format!("--shard={}/{}", i, nshards)]).collect();
        run_workers(bin, args, nshards)
    };
    let t0 = std::time::Instant::now();
    let mut acc = mk(&self_exe());
    let ncases = cases(tier).len();
    let mut reports = vec![SpaceReport { name: format!("grid G^4 x side + movetime grids: {} go commands through the real command_go (checked flavour)", ncases), states: acc.evaluations, exhaustive: true, note: format!("grid {:?} [{:.1}s]", grid(tier), t0.elapsed().as_secs_f64()) }];
    match std::env::var("VERIF_PLAIN_BIN") {
        Ok(bin) if std::path::Path::new(&bin).exists() => {
            let t1 = std::time::Instant::now();
            let p = mk(&bin);
            reports.push(SpaceReport { name: format!("the same {} go commands in the plain (release-semantics) flavour", ncases), states: p.evaluations, exhaustive: true, note: format!("[{:.1}s]", t1.elapsed().as_secs_f64()) });
            acc.merge(p);
        }
        _ => acc.errors.push("VERIF_PLAIN_BIN not set or missing: the release-semantics flavour was not run".into()),
    }
    // virtual-time promptness under all interleavings (in-process, one script at a time)
    let bound = if tier == "quick" { 2 } else { 3 };
    let t2 = std::time::Instant::now();
    let mut a5 = Acc::new();
    for s in timed_scripts() {
        c14::explore_script(&s, bound, &c14::oracle, "c13-e5", &mut a5);
    }
    reports.push(SpaceReport { name: format!("E5: {} scripts with a time budget, all interleavings with deviation cost <= {}", timed_scripts().len(), bound), states: a5.states, exhaustive: true, note: format!("[{:.1}s]", t2.elapsed().as_secs_f64()) });
    acc.merge(a5);
    let mut out = Outcome::new(acc, reports, "every (wtime, btime, winc, binc) of the boundary grid to the fourth power, for either side to move, every movetime of the grid alone / with depth 1 / with infinite / with every clock value, is sent as a real `go` line to the engine (uci_talk under the scheduler's default schedule); the budget handed to the timer thread (hook H3-iv) must equal the printed `info time`, be <= the mover's clock resp. the movetime, no `go` may kill the engine in either build flavour, and the budget must be monotone in the clock; six timed scripts are explored under all interleavings for 'announced within it' in virtual time (after the timer thread has exited the search enters at most one more node)");
    out.traces_validated = out.acc.transitions;
    out.assumptions = vec!["wall-clock latency (OS sleep overshoot, scheduling delay) is not modelled; 'announced within it' is decided in virtual time".into(), "boundary grid, not all of u64^4".into()];
    out
}

pub fn replay(j: &J) -> Result<Acc, String> {
    let go = j.get("go").and_then(|x| x.as_str()).ok_or("go")?;
    let white = j.get("white_to_move").and_then(|x| x.as_bool()).unwrap_or(true);
    let fl = j.get("flavour").and_then(|x| x.as_str()).unwrap_or("checked");
    if fl != flavour() {
        if let Ok(bin) = std::env::var("VERIF_PLAIN_BIN") {
            let tmp = format!("{}/replays/.c13-replay-{}.json", crate::report::verif_dir(), std::process::id());
            std::fs::write(&tmp, json::obj(vec![("property", json::s("C13")), ("replay", j.clone())]).to_string()).map_err(|e| e.to_string())?;
            let w = run_workers(&bin, vec![vec!["replay".into(), tmp.clone(), "--worker".into()]], 1);
            let _ = std::fs::remove_file(&tmp);
            return Ok(w);
        }
        return Err("replay needs the plain flavour (VERIF_PLAIN_BIN)".into());
    }
    let all = cases("thorough");
    let c = all.into_iter().find(|c| c.go == go && c.white == white).unwrap_or(Case { white, go: go.to_string(), limit: u64::MAX, expect_timer: !go.contains("infinite"), clock_case: None, fen: None });
    let mut acc = Acc::new();
    let b = run_batch(std::slice::from_ref(&c), &mut acc);
    out!("  `{}` ({} to move): allotted {:?} ms, available {} ms", c.go, if white { "white" } else { "black" }, b[0], c.limit);
    judge(&c, b[0], &mut acc);
    Ok(acc)
}
