//! C09: pruning and move ordering never change the search result.
//! The optimised search (table lookups disabled through the node hook) is
//! compared with an exhaustive, unpruned, unordered negamax over the same
//! tree with the same leaf rule, for five history-table states.
#![allow(dead_code)]

use crate::bind::*;
use crate::chess::move_struct::Move;
use crate::chess::{Game, Player};
use crate::explore::*;
use crate::json::{self, J};
use crate::props::core::*;
use crate::refchess::*;
use crate::report::Outcome;
use crate::srch::*;
use crate::universe::Universe;
use arrayvec::ArrayVec;

const MIN: i32 = i16::MIN as i32;
const MAX: i32 = i16::MAX as i32;

/// Exhaustive reference: no windows, no ordering, no null-window probes.
/// Leaf rule as the property states it: capture-only extension with stand-pat,
/// checkmate scored by distance, stalemate zero. Built on the engine's own
/// generator and evaluation through the public API.
pub struct Reference {
    /// a node where the side to move has its king but no generated move at all was met (skip rule)
    pub empty_node: bool,
    pub nodes: u64,
    pub cap: u64,
}

impl Reference {
    fn side(g: &Game) -> i32 {
        g.player() as i32
    }
    fn quiesce(&mut self, g: &mut Game, rd: i32) -> i32 {
        self.nodes += 1;
        if self.nodes > self.cap {
            return 0;
        }
        let stand = g.score() as i32 * Self::side(g);
        let player = g.player();
        let mut mv: ArrayVec<Move, 256> = ArrayVec::new();
        g.get_moves(&mut mv, false);
        if mv.is_empty() {
            if g.king_exists(player) {
                self.empty_node = true;
            }
            return if g.king_exists(player) && !g.is_targeted(g.get_king_position(player), player) { 0 } else { MIN + 3000 + rd };
        }
        let mut best = stand;
        for &m in &mv {
            if !m.is_tactical_move() {
                continue;
            }
            g.push(m);
            let s = -self.quiesce(g, rd + 1);
            g.pop(m);
            if s > best {
                best = s;
            }
        }
        best
    }
    fn depth1(&mut self, g: &mut Game, rd: i32) -> i32 {
        self.nodes += 1;
        let player = g.player();
        let mut mv: ArrayVec<Move, 256> = ArrayVec::new();
        g.get_moves(&mut mv, false);
        if mv.is_empty() {
            if g.king_exists(player) {
                self.empty_node = true;
            }
            return if g.king_exists(player) && !g.is_targeted(g.get_king_position(player), player) { 0 } else { MIN + 2000 + rd };
        }
        let mut best = MIN + 1;
        for &m in &mv {
            g.push(m);
            let s = -self.quiesce(g, rd + 1);
            g.pop(m);
            if s > best {
                best = s;
            }
        }
        best
    }
    pub fn value(&mut self, g: &mut Game, rem: i32, rd: i32) -> i32 {
        if self.nodes > self.cap {
            return 0;
        }
        if rem == 0 {
            return self.quiesce(g, rd);
        }
        if rem == 1 {
            return self.depth1(g, rd);
        }
        self.nodes += 1;
        let player = g.player();
        let mut mv: ArrayVec<Move, 256> = ArrayVec::new();
        g.get_moves(&mut mv, true);
        if mv.is_empty() {
            return if g.king_exists(player) && !g.is_targeted(g.get_king_position(player), player) { 0 } else { MIN + 100 + rd };
        }
        let mut best = MIN + 1;
        for &m in &mv {
            g.push(m);
            let s = -self.value(g, rem - 1, rd + 1);
            g.pop(m);
            if s > best {
                best = s;
            }
        }
        best
    }
    /// value of the root for an iteration of `depth` (the root itself is searched by get_best_move_entry)
    pub fn root(&mut self, g: &mut Game, depth: i32) -> i32 {
        let mut mv: ArrayVec<Move, 256> = ArrayVec::new();
        g.get_moves(&mut mv, true);
        let mut best = MIN + 1;
        for &m in &mv {
            g.push(m);
            let s = -self.value(g, depth - 1, 1);
            g.pop(m);
            if s > best {
                best = s;
            }
        }
        best
    }
}

/// "compared after clamping mate-range scores": the engine has three mate-score families, `MIN + 100 | 2000 | 3000 +
/// distance` (true mates, king captures seen by the depth-1 node, king captures seen by the capture extension).
/// Everything within 4000 of either limit is mate range; distances and families inside it are not compared (the value
/// of a king-less node is window-dependent by construction: stand-pat is tested first).
pub fn clamp(x: i32) -> i32 {
    x.max(MIN + 4000).min(MAX - 4000)
}

/// Optimised search, table-less, through the engine's stable entry point (the iterative-deepening driver also used by
/// the UCI layer): one run to `max_depth`; the value of iteration d is the `info score cp` line printed for it.
/// Iteration 1 runs on an all-zero history table, iteration d on the history left by iterations 1..d-1 (the
/// "fresh and pre-filled history tables" of the property). Returns the (depth, score) pairs printed.
pub fn optimised(g: &Game, max_depth: u8) -> Result<Vec<(u32, i32)>, String> {
    let cfg = SearchCfg { max_depth: Some(max_depth), stop_at: u64::MAX, depth_monitor: u32::MAX, watchdog: 200_000_000, tableless: true };
    let mut table = new_table();
    let run = run_search(g, &mut table, &cfg);
    match run.result {
        Err(p) => Err(p),
        Ok(_) => {
            let d = info_depths(&run.transcript);
            let sc = info_scores(&run.transcript);
            Ok(d.into_iter().zip(sc.into_iter()).collect())
        }
    }
}

pub fn compare_root(fen: &str, g: &Game, max_depth: u8, cap: u64, acc: &mut Acc) {
    let mut gm = g.clone();
    let nlegal = moves(&mut gm, true).len();
    if nlegal < 2 {
        acc.count("roots answered by the only-move / no-move shortcut (no value to compare)");
        return;
    }
    let printed = match optimised(g, max_depth) {
        Ok(v) => v,
        Err(p) => {
            acc.violation(format!("c09-panic|{}|d{}", fen, max_depth), format!("table-less search crashed: {} [{} depth {}]", p, fen, max_depth), json::obj(vec![("kind", json::s("c09-root")), ("fen", json::s(fen)), ("depth", json::i(max_depth))]));
            return;
        }
    };
    for (depth, got) in printed {
        // iterations beyond 3 are an extra on roots where the unpruned tree is small: give up on them early
        let cap = if depth > 3 && cap <= 2_000_000 { 300_000 } else { cap };
        let mut r = Reference { empty_node: false, nodes: 0, cap };
        let mut gc = g.clone();
        let want = match guarded(|| r.root(&mut gc, depth as i32)) {
            Ok(v) => v,
            Err(_) => {
                acc.count("reference search panicked on this tree (not compared)");
                return;
            }
        };
        if r.nodes > cap {
            acc.count(if depth > 3 { "deeper iterations (4+) skipped: reference node cap hit (not compared, not covered)" } else { "roots skipped: reference node cap hit (not compared, not covered)" });
            return;
        }
        if r.empty_node {
            acc.count("trees skipped: contain a node with king but no generated move");
            continue;
        }
        acc.states += 1;
        acc.evaluations += 1;
        acc.transitions += 1;
        acc.max("reference nodes in one tree", r.nodes);
        if clamp(got) != clamp(want) {
            acc.outcome("differs");
            acc.violation(
                format!("c09-value|{}|d{}", fen, depth),
                format!("optimised table-less search returns {} at iteration {} but the exhaustive reference returns {} [{}; {} history table, reference nodes {}]", got, depth, want, fen, if depth == 1 { "fresh" } else { "pre-filled by the earlier iterations" }, r.nodes),
                json::obj(vec![("kind", json::s("c09-root")), ("fen", json::s(fen)), ("depth", json::i(depth))]),
            );
            return;
        } else {
            acc.outcome(if clamp(want) != want { format!("equal (mate range), iteration {}", depth) } else { format!("equal, iteration {}", depth) });
        }
    }
}

pub fn run(tier: &str, seed: i64) -> Outcome {
    let q = tier == "quick";
    let off = seed.unsigned_abs();
    let spaces = vec![
        Space::slice(Universe::U2, if q { 8 } else { 1 }, off),
        Space::slice(Universe::U3, if q { 100 } else { 8 }, off),
        // castling is a move kind of its own (no history slot, not a capture): all of UC+0 and a slice of UC+1
        // (endgame phase, where castling is rarely best; the developed openings below are the middlegame counterpart)
        Space::all(Universe::UC { extras: 0 }),
        Space::slice(Universe::UC { extras: 1 }, if q { 30 } else { 2 }, off),
        Space::slice(Universe::UE { extras: 0, capturer_files: None, slider_only: false }, if q { 60 } else { 4 }, off),
        Space::slice(Universe::UP, if q { 8 } else { 1 }, off),
        Space::slice(Universe::UPQ, if q { 4 } else { 1 }, off),
        Space::slice(Universe::U4 { a: code(Q, true), b: code(R, false), files: Some((3, 4)) }, if q { 4000 } else { 100 }, off),
        Space::slice(Universe::U4 { a: code(P, true), b: code(P, false), files: Some((3, 4)) }, if q { 2000 } else { 100 }, off),
        Space::bfs("startpos", ROOT_START, if q { 1 } else { 2 }),
        Space::bfs("kiwipete", ROOT_KIWI, 1),
        Space::bfs("perft3", ROOT_P3, if q { 1 } else { 2 }),
        Space::bfs("promo", ROOT_PROMO, 1),
        Space::bfs("ladder", ROOT_LADDER, if q { 1 } else { 2 }),
        // developed openings in which castling (either side, either wing) is the natural next move: the one move kind
        // that is neither a capture nor a "quiet move with a history slot" must be searched like any other
        Space::bfs("italian", "r1bqk2r/pppp1ppp/2n2n2/2b1p3/2B1P3/2NP1N2/PPP2PPP/R1BQK2R w KQkq - 0 1", 1),
        Space::bfs("ruy-lopez", "r1bqkb1r/1ppp1ppp/p1n2n2/4p3/B3P3/5N2/PPPP1PPP/RNBQK2R w KQkq - 0 1", 1),
        Space::bfs("qgd", "rnbqk2r/ppp1bppp/4pn2/3p4/2PP4/2N2N2/PP2PPPP/R1BQKB1R w KQkq - 0 1", 1),
        Space::bfs("yugoslav", "r1bqk2r/pp2ppbp/2np1np1/8/3NP3/2N1BP2/PPPQ2PP/R3KB1R b KQkq - 0 1", 1),
        Space::bfs("both-long", "r3kbnr/pppqpppp/2n5/3p1b2/3P1B2/2N5/PPPQPPPP/R3KBNR w KQkq - 0 1", 1),
    ];
    let (acc, reports) = run_spaces(&spaces, &|ctx, acc| {
        let Ok(g) = load(ctx.pos) else { return };
        let open = ctx.space.starts_with("BFS");
        let nlegal = ctx.pos.legal().len();
        let fen = ctx.pos.fen6(false);
        // deeper iterations where the unpruned reference is affordable: reductions and forward pruning (null move,
        // late-move reductions) typically need >= 3 plies of remaining depth below the root before they engage
        let dmax: u8 = if open { 2 } else if nlegal <= 6 { if q { 5 } else { 6 } } else if nlegal <= 12 { if q { 4 } else { 5 } } else if !q && nlegal <= 20 { 4 } else { 3 };
        compare_root(&fen, &g, dmax, 2_000_000, acc);
        if acc.samples.len() < 2 {
            acc.sample(json::obj(vec![("root", json::s(fen)), ("iterations", json::s(format!("1..={}", dmax)))]));
        }
    });
    // high-mobility roots: interior nodes with far more than 64 moves (late-move heuristics, move-list order effects)
    let mut acc = acc;
    let mut reports = reports;
    let mob: Vec<String> = {
        let mut v = vec![];
        for f in [
            "R6R/3Q4/1Q4Q1/4Q3/2Q4Q/Q4Q2/pp1Q4/kBNN1KB1 w - - 0 1",
            "3Q4/1Q4Q1/4Q3/2Q4R/Q4Q2/3Q4/1Q4Rp/1K1BBNNk w - - 0 1",
            "k6q/pp6/8/q3N3/1q6/q7/2q3PP/5BRK w - - 0 1",
            "k7/pp6/8/q3N3/1q4q1/q7/2q3PP/5BRK w - - 0 1",
            "Q6Q/8/2Q2Q2/8/8/2Q2Q2/6PP/Q2k2KQ w - - 0 1",
            "k7/8/1Q1Q1Q2/8/1Q1Q1Q2/8/1Q1Q1Q2/7K w - - 0 1",
            "6k1/5ppp/8/3Q4/1Q3Q2/8/5PPP/3Q2K1 w - - 0 1",
        ] {
            if let Ok(p) = parse_fen_strict(f) {
                for q in [p.pos, p.pos.mirror()] {
                    for white in [true, false] {
                        let mut x = q;
                        x.white = white;
                        if x.sane() {
                            v.push(x.fen6(false));
                        }
                    }
                }
            }
        }
        v.sort();
        v.dedup();
        v
    };
    let t0 = std::time::Instant::now();
    let macc = par_items(&mob, &|_, fen, acc| {
        if let Ok(g) = Game::new(fen) {
            compare_root(fen, &g, if q { 3 } else { 4 }, 30_000_000, acc);
        }
    });
    reports.push(SpaceReport { name: format!("high-mobility roots ({} positions with 60-218 moves for one side, both sides to move, colour mirrors), iterations 1..={}", mob.len(), if q { 3 } else { 4 }), states: macc.states, exhaustive: true, note: format!("[{:.1}s]", t0.elapsed().as_secs_f64()) });
    acc.merge(macc);
    if acc.transitions == 0 {
        acc.errors.push("no iteration value (`info ... score cp N`) was recognised in any transcript: nothing was compared".into());
    }
    // the states counter of run_spaces counts visited roots; compare_root counts compared trees on top: keep both visible
    let mut out = Outcome::new(acc, reports, "every root of the listed spaces x every depth 1..=3 (up to 4 on roots with <= 12 moves and 5 on roots with <= 6 moves; one more in the thorough tier; 1..=2 near middlegame roots) (iteration 1 on a fresh history table, later iterations on the history left by the earlier ones): the iterative-deepening driver with every table lookup forced to miss (node hook clears the table) must print, for every iteration, the value of an exhaustive unpruned negamax over the same tree with the same leaf rule, after clamping mate-range scores; trees containing a node with king but no generated move are skipped and counted");
    out.traces_validated = out.acc.transitions;
    if out.acc.counts.contains_key("roots skipped: reference node cap hit (not compared, not covered)") {
        out.caps.push("reference node cap 2e6 hit on some roots; those roots are not compared and not counted as covered".into());
    }
    out.assumptions = vec!["the reference uses the engine's own generator and evaluation through the public API (their correctness is C01/C16's business); it shares no search code".into(), "unpruned reference is feasible on <= 7-men roots to depth 4 and near middlegame roots to depth 2".into()];
    out
}

pub fn replay(j: &J) -> Result<Acc, String> {
    let fen = j.get("fen").and_then(|x| x.as_str()).ok_or("fen")?;
    let d = j.get("depth").and_then(|x| x.as_i()).ok_or("depth")? as u8;
    let g = Game::new(fen).map_err(|e| e.to_string())?;
    let mut acc = Acc::new();
    compare_root(fen, &g, d, 50_000_000, &mut acc);
    let _ = Player::White;
    Ok(acc)
}
