//! C09: pruning and move ordering never change the search result.
//! The optimised search (table lookups disabled through the node hook) is
//! compared with an exhaustive, unpruned, unordered negamax over the same
//! tree with the same leaf rule, for five history-table states.
#![allow(dead_code)]

use crate::bind::*;
use crate::chess::move_struct::Move;
use crate::chess::{Game, Player};
use crate::explore::*;
use crate::json::{self, J};
use crate::props::core::*;
use crate::refchess::*;
use crate::report::Outcome;
use crate::srch::*;
use crate::universe::Universe;
use crate::verif_hooks::{in_seq, SeqCtx};
use arrayvec::ArrayVec;
use std::sync::atomic::AtomicBool;

const MIN: i32 = i16::MIN as i32;
const MAX: i32 = i16::MAX as i32;

/// Exhaustive reference: no windows, no ordering, no null-window probes.
/// Leaf rule as the property states it: capture-only extension with stand-pat,
/// checkmate scored by distance, stalemate zero. Built on the engine's own
/// generator and evaluation through the public API.
pub struct Reference {
    /// a node where the side to move has its king but no generated move at all was met (skip rule)
    pub empty_node: bool,
    pub nodes: u64,
    pub cap: u64,
}

impl Reference {
    fn side(g: &Game) -> i32 {
        g.player() as i32
    }
    fn quiesce(&mut self, g: &mut Game, rd: i32) -> i32 {
        self.nodes += 1;
        if self.nodes > self.cap {
            return 0;
        }
        let stand = g.score() as i32 * Self::side(g);
        let player = g.player();
        let mut mv: ArrayVec<Move, 256> = ArrayVec::new();
        g.get_moves(&mut mv, false);
        if mv.is_empty() {
            if g.king_exists(player) {
                self.empty_node = true;
            }
            return if g.king_exists(player) && !g.is_targeted(g.get_king_position(player), player) { 0 } else { MIN + 3000 + rd };
        }
        let mut best = stand;
        for &m in &mv {
            if !m.is_tactical_move() {
                continue;
            }
            g.push(m);
            let s = -self.quiesce(g, rd + 1);
            g.pop(m);
            if s > best {
                best = s;
            }
        }
        best
    }
    fn depth1(&mut self, g: &mut Game, rd: i32) -> i32 {
        self.nodes += 1;
        let player = g.player();
        let mut mv: ArrayVec<Move, 256> = ArrayVec::new();
        g.get_moves(&mut mv, false);
        if mv.is_empty() {
            if g.king_exists(player) {
                self.empty_node = true;
            }
            return if g.king_exists(player) && !g.is_targeted(g.get_king_position(player), player) { 0 } else { MIN + 2000 + rd };
        }
        let mut best = MIN + 1;
        for &m in &mv {
            g.push(m);
            let s = -self.quiesce(g, rd + 1);
            g.pop(m);
            if s > best {
                best = s;
            }
        }
        best
    }
    pub fn value(&mut self, g: &mut Game, rem: i32, rd: i32) -> i32 {
        if self.nodes > self.cap {
            return 0;
        }
        if rem == 0 {
            return self.quiesce(g, rd);
        }
        if rem == 1 {
            return self.depth1(g, rd);
        }
        self.nodes += 1;
        let player = g.player();
        let mut mv: ArrayVec<Move, 256> = ArrayVec::new();
        g.get_moves(&mut mv, true);
        if mv.is_empty() {
            return if g.king_exists(player) && !g.is_targeted(g.get_king_position(player), player) { 0 } else { MIN + 100 + rd };
        }
        let mut best = MIN + 1;
        for &m in &mv {
            g.push(m);
            let s = -self.value(g, rem - 1, rd + 1);
            g.pop(m);
            if s > best {
                best = s;
            }
        }
        best
    }
    /// value of the root for an iteration of `depth` (the root itself is searched by get_best_move_entry)
    pub fn root(&mut self, g: &mut Game, depth: i32) -> i32 {
        let mut mv: ArrayVec<Move, 256> = ArrayVec::new();
        g.get_moves(&mut mv, true);
        let mut best = MIN + 1;
        for &m in &mv {
            g.push(m);
            let s = -self.value(g, depth - 1, 1);
            g.pop(m);
            if s > best {
                best = s;
            }
        }
        best
    }
}

pub fn clamp(x: i32) -> i32 {
    x.max(MIN + 1000).min(MAX - 1000)
}

pub fn history_pattern(k: usize) -> [u16; 64 * 12] {
    let mut h = [0u16; 64 * 12];
    for (i, x) in h.iter_mut().enumerate() {
        *x = match k {
            0 => 0,
            1 => 10_000,
            2 => (i * 13 % 10_000) as u16,
            3 => (10_000 - (i * 13 % 10_000)) as u16,
            _ => {
                if (i % 64) % 2 == 1 {
                    5_000
                } else {
                    0
                }
            }
        };
    }
    h
}

pub const PATTERNS: [&str; 5] = ["all zero", "all 10000", "ascending by index", "descending by index", "odd squares only"];

/// optimised search, table-less, one history state. Ok(score) / Err(panic). None = only-move / no-move shortcut
pub fn optimised(g: &Game, depth: u8, pattern: usize) -> Result<Option<i32>, String> {
    let mut ctx = SeqCtx::new();
    ctx.tableless = true;
    let flag = AtomicBool::new(true);
    let mut table = new_table();
    let mut hist = history_pattern(pattern);
    let gc = g.clone();
    let (r, _) = in_seq(ctx, || guarded(|| crate::search::get_best_move_entry(gc, &flag, depth, &mut table, &mut hist)));
    match r {
        Err(p) => Err(p),
        Ok(None) => Err("search aborted although the flag was never lowered".into()),
        Ok(Some((_, _, true))) => Ok(None),
        Ok(Some((_, score, false))) => Ok(Some(score as i32)),
    }
}

pub fn compare_root(fen: &str, g: &Game, depth: u8, cap: u64, acc: &mut Acc) {
    let mut r = Reference { empty_node: false, nodes: 0, cap };
    let mut gc = g.clone();
    let want = match guarded(|| r.root(&mut gc, depth as i32)) {
        Ok(v) => v,
        Err(p) => {
            acc.count("reference search panicked on this tree (not compared)");
            let _ = p;
            return;
        }
    };
    if r.nodes > cap {
        acc.count("roots skipped: reference node cap hit (not compared, not covered)");
        return;
    }
    if r.empty_node {
        acc.count("trees skipped: contain a node with king but no generated move");
        return;
    }
    acc.states += 1;
    acc.max("reference nodes in one tree", r.nodes);
    for k in 0..PATTERNS.len() {
        acc.evaluations += 1;
        match optimised(g, depth, k) {
            Err(p) => {
                acc.violation(format!("c09-panic|{}|d{}", fen, depth), format!("table-less search crashed: {} [{} depth {} history '{}']", p, fen, depth, PATTERNS[k]), json::obj(vec![("kind", json::s("c09-root")), ("fen", json::s(fen)), ("depth", json::i(depth))]));
                return;
            }
            Ok(None) => {
                acc.count("roots answered by the only-move / no-move shortcut (no value to compare)");
                return;
            }
            Ok(Some(got)) => {
                acc.transitions += 1;
                if clamp(got) != clamp(want) {
                    acc.outcome("differs");
                    acc.violation(
                        format!("c09-value|{}|d{}", fen, depth),
                        format!("optimised table-less search returns {} but the exhaustive reference returns {} [{} depth {} history '{}', reference nodes {}]", got, want, fen, depth, PATTERNS[k], r.nodes),
                        json::obj(vec![("kind", json::s("c09-root")), ("fen", json::s(fen)), ("depth", json::i(depth))]),
                    );
                    return;
                } else {
                    acc.outcome(if clamp(want) != want { "equal (mate range)" } else if want == 0 { "equal (zero)" } else { "equal" });
                }
            }
        }
    }
}

pub fn run(tier: &str, seed: i64) -> Outcome {
    let q = tier == "quick";
    let off = seed.unsigned_abs();
    let spaces = vec![
        Space::slice(Universe::U2, if q { 8 } else { 1 }, off),
        Space::slice(Universe::U3, if q { 300 } else { 12 }, off),
        Space::slice(Universe::UC { extras: 1 }, if q { 60 } else { 4 }, off),
        Space::slice(Universe::UE { extras: 0, capturer_files: None, slider_only: false }, if q { 60 } else { 4 }, off),
        Space::slice(Universe::UP, if q { 8 } else { 1 }, off),
        Space::slice(Universe::U4 { a: code(Q, true), b: code(R, false), files: Some((3, 4)) }, if q { 4000 } else { 100 }, off),
        Space::slice(Universe::U4 { a: code(P, true), b: code(P, false), files: Some((3, 4)) }, if q { 2000 } else { 100 }, off),
        Space::bfs("startpos", ROOT_START, if q { 1 } else { 2 }),
        Space::bfs("kiwipete", ROOT_KIWI, 1),
        Space::bfs("perft3", ROOT_P3, if q { 1 } else { 2 }),
        Space::bfs("promo", ROOT_PROMO, 1),
        Space::bfs("ladder", ROOT_LADDER, if q { 1 } else { 2 }),
    ];
    let (acc, reports) = run_spaces(&spaces, &|ctx, acc| {
        let Ok(g) = load(ctx.pos) else { return };
        let open = ctx.space.starts_with("BFS");
        let nlegal = ctx.pos.legal().len();
        let fen = ctx.pos.fen6(false);
        let dmax: u8 = if open { 2 } else if !q && nlegal <= 12 { 4 } else { 3 };
        for d in 1..=dmax {
            compare_root(&fen, &g, d, 2_000_000, acc);
        }
        if acc.samples.len() < 2 {
            acc.sample(json::obj(vec![("root", json::s(fen)), ("depths", json::s(format!("1..={}", dmax))), ("history_states", json::strs(&PATTERNS))]));
        }
    });
    // the states counter of run_spaces counts visited roots; compare_root counts compared trees on top: keep both visible
    let mut out = Outcome::new(acc, reports, "every root of the listed spaces x every depth 1..=3 (4 on roots with <= 12 moves, thorough; 1..=2 near middlegame roots) x five history-table states: get_best_move_entry with every table lookup forced to miss (node hook clears the table) must return the value of an exhaustive unpruned negamax over the same tree with the same leaf rule, after clamping mate-range scores; trees containing a node with king but no generated move are skipped and counted");
    out.traces_validated = out.acc.transitions;
    if out.acc.counts.contains_key("roots skipped: reference node cap hit (not compared, not covered)") {
        out.caps.push("reference node cap 2e6 hit on some roots; those roots are not compared and not counted as covered".into());
    }
    out.assumptions = vec!["the reference uses the engine's own generator and evaluation through the public API (their correctness is C01/C16's business); it shares no search code".into(), "unpruned reference is feasible on <= 7-men roots to depth 4 and near middlegame roots to depth 2".into()];
    out
}

pub fn replay(j: &J) -> Result<Acc, String> {
    let fen = j.get("fen").and_then(|x| x.as_str()).ok_or("fen")?;
    let d = j.get("depth").and_then(|x| x.as_i()).ok_or("depth")? as u8;
    let g = Game::new(fen).map_err(|e| e.to_string())?;
    let mut acc = Acc::new();
    compare_root(fen, &g, d, 50_000_000, &mut acc);
    let _ = Player::White;
    Ok(acc)
}
