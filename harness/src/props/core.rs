//! State-space properties of the board core: C01 (move generation), C02
//! (make), C03 (unmake / queries), C04 (hash), C11 (FEN export), C16 (score).
//! Each is a visitor run over every state of the tier's spaces (explorers E1/E2).
#![allow(dead_code)]

use crate::bind::*;
use crate::chess::Game;
use crate::explore::*;
use crate::json::{self, J};
use crate::refchess::*;
use crate::report::Outcome;
use crate::universe::Universe;
use std::collections::BTreeSet;
use std::sync::OnceLock;

pub static KEYS: OnceLock<Keys> = OnceLock::new();
pub fn keys() -> &'static Keys {
    KEYS.get().expect("keys not loaded")
}

pub const ROOT_START: &str = "rnbqkbnr/pppppppp/8/8/8/8/PPPPPPPP/RNBQKBNR w KQkq - 0 1";
pub const ROOT_KIWI: &str = "r3k2r/p1ppqpb1/bn2pnp1/3PN3/1p2P3/2N2Q1p/PPPBBPPP/R3K2R w KQkq - 0 1";
pub const ROOT_P3: &str = "8/2p5/3p4/KP5r/1R3p1k/8/4P1P1/8 w - - 0 1";
pub const ROOT_P4: &str = "r3k2r/Pppp1ppp/1b3nbN/nP6/BBP1P3/q4N2/Pp1P2PP/R2Q1RK1 w kq - 0 1";
pub const ROOT_P5: &str = "rnbq1k1r/pp1Pbppp/2p5/8/2B5/8/PPP1NnPP/RNBQK2R w KQ - 1 8";
pub const ROOT_P6: &str = "r4rk1/1pp1qppp/p1np1n2/2b1p1B1/2B1P1b1/P1NP1N2/1PP1QPPP/R4RK1 w - - 0 10";
pub const ROOT_PROMO: &str = "n1n5/PPPk4/8/8/8/8/4Kppp/5N1N b - - 0 1";
/// all rights, pawns able to capture every home rook by promotion, rooks able to capture rooks at home
pub const ROOT_RIGHTS: &str = "r3k2r/1P4P1/8/8/8/8/1p4p1/R3K2R w KQkq - 0 1";
/// material ladder: forced-capture-rich position straddling the endgame threshold (sum |psq| close to 43000)
pub const ROOT_LADDER: &str = "3rk3/3r4/8/8/8/8/3Q4/3RK3 w - - 0 1";
/// the same idea one pawn pair and one knight pair richer: sum |psq| = 43210, i.e. still in the opening phase, and one
/// capture (Qxd7, Rxd7 ...) takes it below the endgame threshold: the phase switch happens inside the explored lines
pub const ROOT_LADDER_OPEN: &str = "2nrk3/3r1p2/8/8/8/8/3Q1P2/2NRK3 w - - 0 1";
/// a pawn about to promote by capture while the opponent still owns all eight pawns (1.a4 b5 2.a5 Bb7 3.a6 Nf6 4.axb7
/// Nc6), and its colour mirror: a second queen / third rook, bishop or knight appears while the other side's material
/// is complete - the census a material-counting reader or evaluator sees only here
pub const ROOT_PROMO_FULL: &str = "r2qkb1r/pPpppppp/2n2n2/1p6/8/8/1PPPPPPP/RNBQKBNR w KQkq - 0 5";
pub const ROOT_PROMO_FULL_MIRROR: &str = "rnbqkbnr/1ppppppp/8/8/1P6/2N2N2/PpPPPPPP/R2QKB1R b KQkq - 0 5";
pub const ROOT_KRK: &str = "8/8/8/4k3/8/8/8/R3K3 w - - 0 1";
pub const ROOT_KQK: &str = "8/8/8/4k3/8/8/8/1Q2K3 w - - 0 1";
pub const ROOT_KPK: &str = "8/8/8/4k3/8/8/4P3/4K3 w - - 0 1";
pub const ROOT_KPKP: &str = "8/4p3/8/4k3/8/8/3P4/4K3 w - - 0 1";

/// Root of the `state-change` histories: all four castling rights with empty back ranks, a pawn of either colour
/// on its home square next to the file of an advanced enemy pawn (a double step creates an en-passant file), and a
/// knight each for reversible waiting moves.
pub const ROOT_STATE_CHANGE: &str = "r3k2r/3p4/7n/4P3/3p4/7N/4P3/R3K2R w KQkq - 0 1";

/// History length x kind of state change: after a prefix of k reversible knight moves (every k with k + 2 <= 398)
/// the mover plays one of the moves that change the per-ply state (a double step that creates an en-passant file,
/// either castling, a king move, either rook leaving its corner; a quiet pawn step as control) and the opponent
/// answers (en-passant capture, waiting move - the file lapses -, its own double step, its own castling). The two
/// states after those moves are visited with the whole history on the game. Whatever the engine does at a particular
/// length of the state stack or the move record (a buffer boundary, a compaction, a counter width) meets every kind
/// of state change there.
pub fn state_change_paths(heavy: bool) -> Space {
    let cycle = ["h3g5", "h6g4", "g5h3", "g4h6"];
    let first: [&[&str]; 2] = [&["e2e4", "e1g1", "e1c1", "e1f1", "a1b1", "h1g1", "e2e3"], &["d7d5", "e8g8", "e8c8", "e8f8", "a8b8", "h8g8", "d7d6"]];
    let reply: [&[&str]; 2] = [&["d4e3", "d7d5", "e8g8", "e8c8"], &["e5d6", "e2e4", "e1g1", "e1c1"]];
    let root = crate::refchess::parse_fen_strict(ROOT_STATE_CHANGE).expect("root").pos.normalised();
    let mut paths = vec![];
    let mut cur = root;
    let mut prefix: Vec<String> = vec![];
    for k in 0..=396usize {
        let side = k % 2; // 0 = white to move
        for f in first[side] {
            let Some(m1) = cur.legal().into_iter().find(|m| &m.uci() == f) else { continue };
            let after = cur.apply(&m1).normalised();
            // the opponent's waiting move continues its knight's cycle
            let wait = cycle[(k + 1) % 4];
            let mut rs: Vec<&str> = vec![wait];
            if !heavy || k % 8 == 0 || [255usize, 256, 257, 383, 384, 385, 395, 396].contains(&k) {
                rs.extend(reply[side].iter());
            } else {
                rs.push(reply[side][0]);
            }
            for r in rs {
                if after.legal().iter().any(|m| m.uci() == r) {
                    let mut p = prefix.clone();
                    p.push(f.to_string());
                    p.push(r.to_string());
                    paths.push(p);
                }
            }
        }
        let w = cycle[k % 4];
        let m = cur.legal().into_iter().find(|m| m.uci() == w).expect("waiting move legal");
        cur = cur.apply(&m).normalised();
        prefix.push(w.to_string());
    }
    Space::Paths { name: "state-change x history length".into(), root: ROOT_STATE_CHANGE.into(), paths, visit_last: 2 }
}

/// The spaces a core property runs over, per tier.
pub fn core_spaces(tier: &str, seed: i64, heavy: bool) -> Vec<Space> {
    let off = seed.unsigned_abs();
    let mut v = vec![];
    if tier == "quick" {
        v.push(Space::all(Universe::U2));
        if heavy {
            v.push(Space::slice(Universe::U3, 8, off));
        } else {
            v.push(Space::all(Universe::U3));
        }
        v.push(Space::all(Universe::UC { extras: 0 }));
        v.push(Space::all(Universe::UC { extras: 1 }));
        v.push(Space::all(Universe::UE { extras: 0, capturer_files: None, slider_only: false }));
        if heavy {
            v.push(Space::slice(Universe::UE { extras: 1, capturer_files: Some(vec![1, 4, 6]), slider_only: true }, 8, off));
        } else {
            v.push(Space::all(Universe::UE { extras: 1, capturer_files: Some(vec![1, 4, 6]), slider_only: true }));
        }
        v.push(Space::all(Universe::UP));
        v.push(Space::all(Universe::UEA));
        v.push(Space::all(Universe::UCE));
        v.push(Space::all(Universe::UEX));
        if heavy {
            v.push(Space::slice(Universe::UPP, 16, off));
        } else {
            v.push(Space::slice(Universe::UPP, 2, off));
        }
        if heavy {
            v.push(Space::slice(Universe::UPIN, 4, off));
            v.push(Space::slice(Universe::UDBL, 4, off));
        } else {
            v.push(Space::all(Universe::UPIN));
            v.push(Space::all(Universe::UDBL));
        }
        v.push(Space::all(Universe::UCK { extras: 0 }));
        if heavy {
            v.push(Space::slice(Universe::UCK { extras: 1 }, 4, off));
        } else {
            v.push(Space::all(Universe::UCK { extras: 1 }));
        }
        if heavy {
            v.push(Space::slice(Universe::U4 { a: code(P, true), b: code(P, false), files: Some((3, 4)) }, 4, off));
        } else {
            v.push(Space::all(Universe::U4 { a: code(P, true), b: code(P, false), files: Some((3, 4)) }));
        }
        v.push(Space::bfs("startpos", ROOT_START, if heavy { 3 } else { 4 }));
        v.push(Space::bfs("kiwipete", ROOT_KIWI, if heavy { 2 } else { 3 }));
        v.push(Space::bfs("perft3", ROOT_P3, 3));
        v.push(Space::bfs("perft4", ROOT_P4, 2));
        v.push(Space::bfs("perft5", ROOT_P5, 2));
        v.push(Space::bfs("perft6", ROOT_P6, 2));
        v.push(Space::bfs("promo", ROOT_PROMO, 3));
        v.push(Space::bfs("rights", ROOT_RIGHTS, 3));
        v.push(Space::bfs("ladder", ROOT_LADDER, 4));
        v.push(Space::bfs("ladder-open", ROOT_LADDER_OPEN, 3));
        v.push(Space::bfs("promo-full", ROOT_PROMO_FULL, 2));
        v.push(Space::bfs("promo-full-mirror", ROOT_PROMO_FULL_MIRROR, 2));
        v.push(Space::closure("KRk", ROOT_KRK));
        // long histories: the state stack close to the 400-ply interface limit
        v.push(Space::line("startpos-any", ROOT_START, 398, 2));
        v.push(Space::line("startpos-shuffle", ROOT_START, 398, 1));
        v.push(Space::line("kiwipete-shuffle", ROOT_KIWI, 398, 3));
        v.push(Space::line("rights-any", ROOT_RIGHTS, 398, 4));
        v.push(state_change_paths(heavy));
    } else {
        v.push(Space::all(Universe::U2));
        v.push(Space::all(Universe::U3));
        v.push(Space::all(Universe::UC { extras: 0 }));
        v.push(Space::all(Universe::UC { extras: 1 }));
        if heavy {
            v.push(Space::slice(Universe::UC { extras: 2 }, 16, off));
        } else {
            v.push(Space::all(Universe::UC { extras: 2 }));
        }
        v.push(Space::all(Universe::UE { extras: 0, capturer_files: None, slider_only: false }));
        v.push(Space::all(Universe::UE { extras: 1, capturer_files: Some(vec![0, 1, 3, 4, 6, 7]), slider_only: false }));
        v.push(Space::all(Universe::UP));
        v.push(Space::all(Universe::UEA));
        v.push(Space::all(Universe::UCE));
        v.push(Space::all(Universe::UEX));
        v.push(Space::all(Universe::UPP));
        v.push(Space::all(Universe::UPIN));
        v.push(Space::all(Universe::UDBL));
        v.push(Space::all(Universe::UCK { extras: 0 }));
        v.push(Space::all(Universe::UCK { extras: 1 }));
        for (a, b) in [(code(P, true), code(P, false)), (code(Q, true), code(R, false)), (code(R, true), code(B, false)), (code(P, true), code(N, false))] {
            if heavy {
                v.push(Space::all(Universe::U4 { a, b, files: Some((2, 5)) }));
            } else {
                v.push(Space::all(Universe::U4 { a, b, files: None }));
            }
        }
        v.push(Space::bfs("startpos", ROOT_START, if heavy { 4 } else { 5 }));
        v.push(Space::bfs("kiwipete", ROOT_KIWI, 3));
        v.push(Space::bfs("perft3", ROOT_P3, 4));
        v.push(Space::bfs("perft4", ROOT_P4, 3));
        v.push(Space::bfs("perft5", ROOT_P5, 3));
        v.push(Space::bfs("perft6", ROOT_P6, 3));
        v.push(Space::bfs("promo", ROOT_PROMO, 4));
        v.push(Space::bfs("rights", ROOT_RIGHTS, 4));
        v.push(Space::bfs("ladder", ROOT_LADDER, 6));
        v.push(Space::bfs("ladder-open", ROOT_LADDER_OPEN, 5));
        v.push(Space::bfs("promo-full", ROOT_PROMO_FULL, 3));
        v.push(Space::bfs("promo-full-mirror", ROOT_PROMO_FULL_MIRROR, 3));
        v.push(Space::closure("KRk", ROOT_KRK));
        v.push(Space::closure("KQk", ROOT_KQK));
        v.push(Space::closure("KPk", ROOT_KPK));
        for rule in 1..=24u32 {
            let (n, r) = match rule % 4 { 0 => ("rights", ROOT_RIGHTS), 1 => ("startpos", ROOT_START), 2 => ("perft5", ROOT_P5), _ => ("kiwipete", ROOT_KIWI) };
            v.push(Space::line(&format!("{}-rule{}", n, rule), r, 398, rule));
        }
        v.push(state_change_paths(false));
    }
    v
}

fn vio(acc: &mut Acc, ctx: &StateCtx, tag: &str, what: String) {
    let key = format!("{}|{}", tag, ctx.pos.fen4(false));
    let mut d = ctx.describe();
    if let J::Obj(v) = &mut d {
        v.insert(0, ("kind".into(), json::s("state")));
    }
    acc.violation(key, format!("{} [{} {}]", what, ctx.pos.fen4(false), ctx.space), d);
}

/// both games for a state: loaded from the model's FEN, and (for BFS states) reached by replaying the path
pub fn games(ctx: &StateCtx, acc: &mut Acc, history: bool) -> Vec<(&'static str, Game)> {
    let mut out = vec![];
    match load(ctx.pos) {
        Ok(g) => out.push(("loaded", g)),
        Err(e) => vio(acc, ctx, "load", e),
    }
    if let Some(root) = ctx.root {
        if !ctx.path.is_empty() {
            match load(root) {
                Ok(mut g) => match guarded(|| replay(&mut g, ctx.path, history)) {
                    Ok(Ok(())) => out.push(("reached", g)),
                    Ok(Err(e)) => vio(acc, ctx, "replay", e),
                    Err(p) => vio(acc, ctx, "replay-panic", p),
                },
                Err(e) => vio(acc, ctx, "load-root", e),
            }
        }
    }
    out
}

fn sorted(mut v: Vec<String>) -> Vec<String> {
    v.sort();
    v
}

// =========================================================================== C01

pub fn c01_visit(ctx: &StateCtx, acc: &mut Acc) {
    let model_legal = ctx.pos.legal();
    let want: Vec<String> = sorted(model_legal.iter().map(|m| m.uci()).collect());
    let pseudo: BTreeSet<String> = ctx.pos.pseudo_legal().iter().map(|m| m.uci()).collect();
    let pseudo_moves = ctx.pos.pseudo_legal();
    acc.max("legal moves in a state", want.len() as u64);
    if want.is_empty() {
        acc.count(if ctx.pos.in_check(ctx.pos.white) { "checkmated states" } else { "stalemated states" });
    }
    if ctx.pos.in_check(ctx.pos.white) {
        acc.count("states in check");
    }
    for m in &model_legal {
        match m.kind {
            MvKind::EnPassant => acc.count("legal en-passant captures"),
            MvKind::CastleShort | MvKind::CastleLong => acc.count("legal castlings"),
            MvKind::Promotion => acc.count("legal promotions"),
            _ => {}
        }
    }
    let mut all = games(ctx, acc, false);
    if ctx.root.is_some() && !ctx.path.is_empty() {
        // the route of the `position` command and of self-play: moves played into the record
        all.extend(games(ctx, acc, true).into_iter().filter(|(how, _)| *how == "reached").map(|(_, g)| ("reached by push_history", g)));
    }
    for (how, mut g) in all {
        let r = guarded(|| (move_texts(&mut g, true), move_texts(&mut g, false)));
        let (checked, unchecked) = match r {
            Ok(x) => x,
            Err(p) => {
                vio(acc, ctx, "gen-panic", format!("move generation panicked ({} game): {}", how, p));
                continue;
            }
        };
        acc.evaluations += 1;
        let got = sorted(checked.clone());
        if got != want {
            let missing: Vec<&String> = want.iter().filter(|m| !got.contains(m)).collect();
            let extra: Vec<&String> = got.iter().filter(|m| !want.contains(m)).collect();
            let mut dup = vec![];
            for w in got.windows(2) {
                if w[0] == w[1] {
                    dup.push(w[0].clone());
                }
            }
            vio(acc, ctx, "legal-set", format!("checked move list differs from the legal moves ({} game): missing {:?}, extra {:?}, repeated {:?}", how, missing, extra, dup));
            continue;
        }
        // unchecked list: superset; extras are pseudo-legal and leave the mover's king attacked
        let mut un_sorted = sorted(unchecked.clone());
        let before = un_sorted.len();
        un_sorted.dedup();
        if un_sorted.len() != before {
            vio(acc, ctx, "unchecked-dup", format!("unchecked list repeats a move ({} game): {:?}", how, unchecked));
        }
        for m in &want {
            if !un_sorted.contains(m) {
                vio(acc, ctx, "unchecked-missing", format!("unchecked list lacks legal move {} ({} game)", m, how));
            }
        }
        for m in &un_sorted {
            if want.contains(m) {
                continue;
            }
            acc.count("unchecked extras examined");
            if !pseudo.contains(m) {
                vio(acc, ctx, "unchecked-geometry", format!("unchecked list contains {} which is not a geometrically valid move ({} game)", m, how));
                continue;
            }
            let mm = pseudo_moves.iter().find(|x| &x.uci() == m).unwrap();
            if !ctx.pos.apply(mm).in_check(ctx.pos.white) {
                vio(acc, ctx, "unchecked-extra-legal", format!("unchecked extra {} does not leave the mover's king attacked ({} game)", m, how));
            }
        }
    }
    acc.transitions += want.len() as u64;
    acc.outcome(format!("check={} ep={} castling={} promotions={} moves{}", ctx.pos.in_check(ctx.pos.white), ctx.pos.engine_ep_file() != 8, model_legal.iter().any(|m| matches!(m.kind, MvKind::CastleShort | MvKind::CastleLong)), model_legal.iter().any(|m| m.kind == MvKind::Promotion), match want.len() { 0 => "=0", 1..=8 => "<=8", 9..=24 => "<=24", _ => ">24" }));
    if acc.states % 500_000 == 1 {
        acc.sample(ctx.describe());
    }
}

// =========================================================================== C02

pub fn c02_visit(ctx: &StateCtx, acc: &mut Acc) {
    let model_legal = ctx.pos.legal();
    for (how, mut g) in games(ctx, acc, false) {
        for m in &model_legal {
            let t = m.uci();
            let Some(em) = find_move(&mut g, &t) else {
                acc.count("model move not offered by the engine (reported by C01)");
                continue;
            };
            let succ = ctx.pos.apply(m);
            let r = guarded(|| {
                g.push(em);
                let d = g.verif_dump();
                let fen = g.fen();
                g.pop(em);
                (d, fen)
            });
            acc.transitions += 1;
            let (d, fen) = match r {
                Ok(x) => x,
                Err(p) => {
                    vio(acc, ctx, &format!("push-panic|{}", t), format!("push/pop of {} panicked ({} game): {}", t, how, p));
                    // game state may be torn: reload
                    break;
                }
            };
            match m.kind {
                MvKind::EnPassant => acc.count("en-passant transitions"),
                MvKind::CastleShort | MvKind::CastleLong => acc.count("castling transitions"),
                MvKind::Promotion => acc.count(if m.captured != 0 { "capturing promotions" } else { "promotions" }),
                MvKind::Double => acc.count(if succ.engine_ep_file() != 8 { "double steps that create an en-passant opportunity" } else { "double steps without capturer" }),
                _ => {}
            }
            if succ.rights != ctx.pos.rights {
                acc.count("transitions losing a castling right");
                acc.outcome(format!("rights {} -> {} by {:?}{}", ctx.pos.rights_field(), succ.rights_field(), m.kind, if m.captured != 0 { " capture" } else { "" }));
            }
            acc.outcome(format!("{:?} capture={} ep_after={}", m.kind, m.captured != 0, succ.engine_ep_file() != 8));
            if let Err(e) = core_matches(&d, &succ) {
                vio(acc, ctx, &format!("succ|{}", t), format!("after {} ({} game): {}", t, how, e));
                continue;
            }
            // fields 1-3 of the exported text, independently of the dump
            let f: Vec<&str> = fen.split(' ').collect();
            if f.len() < 4 || f[0] != succ.placement_field() || f[1] != (if succ.white { "w" } else { "b" }) || f[2] != succ.rights_field() {
                vio(acc, ctx, &format!("succ-fen|{}", t), format!("after {} ({} game) fen() = {:?}, model successor {:?}", t, how, fen, succ.fen4(false)));
            }
        }
    }
    // the same through `push_history` (the route of the `position` command and of self-play): the game reached by
    // playing the whole path into the record is the model position, and so is every successor played into the record
    if ctx.root.is_some() && !ctx.path.is_empty() {
        for (_, g) in games(ctx, acc, true).into_iter().filter(|(how, _)| *how == "reached") {
            acc.count("states reached by push_history compared with the model");
            if let Err(e) = core_matches(&g.verif_dump(), ctx.pos) {
                vio(acc, ctx, "reached-history", format!("the game reached by playing {} plies into the record differs from the model position: {}", ctx.path.len(), e));
                continue;
            }
            for m in &model_legal {
                let t = m.uci();
                let mut h = g.clone();
                let Some(em) = find_move(&mut h, &t) else { continue };
                let succ = ctx.pos.apply(m);
                let r = guarded(|| {
                    h.push_history(em);
                    (h.verif_dump(), h.fen())
                });
                acc.transitions += 1;
                match r {
                    Err(p) => vio(acc, ctx, &format!("push-history-panic|{}", t), format!("push_history of {} panicked after {} plies: {}", t, ctx.path.len(), p)),
                    Ok((d, fen)) => {
                        if let Err(e) = core_matches(&d, &succ) {
                            vio(acc, ctx, &format!("succ-history|{}", t), format!("after {} played into the record ({} plies before it): {}", t, ctx.path.len(), e));
                            continue;
                        }
                        let f: Vec<&str> = fen.split(' ').collect();
                        if f.len() < 4 || f[0] != succ.placement_field() || f[1] != (if succ.white { "w" } else { "b" }) || f[2] != succ.rights_field() {
                            vio(acc, ctx, &format!("succ-history-fen|{}", t), format!("after {} played into the record fen() = {:?}, model successor {:?}", t, fen, succ.fen4(false)));
                        }
                    }
                }
            }
        }
    }
    if acc.states % 500_000 == 1 {
        acc.sample(ctx.describe());
    }
}

// =========================================================================== C03

fn c03_nested(g: &mut Game, depth: u32, acc: &mut Acc, trail: &mut Vec<String>, fail: &mut Option<String>) {
    if fail.is_some() {
        return;
    }
    let before = g.verif_dump();
    let list = moves(g, false);
    let after_q = g.verif_dump();
    if after_q != before {
        *fail = Some(format!("get_moves(false) changed the game after [{}]: {}", trail.join(" "), diff_dump(&before, &after_q)));
        return;
    }
    for m in list.iter() {
        g.push(*m);
        if depth > 1 {
            trail.push(m.uci_notation());
            c03_nested(g, depth - 1, acc, trail, fail);
            trail.pop();
        }
        g.pop(*m);
        acc.transitions += 1;
        if fail.is_some() {
            return;
        }
        let after = g.verif_dump();
        if after != before {
            *fail = Some(format!("push/pop of {} after [{}] did not restore the game: {}", m.uci_notation(), trail.join(" "), diff_dump(&before, &after)));
            return;
        }
    }
}

pub fn c03_visit_depth(ctx: &StateCtx, acc: &mut Acc, nest_param: u32) {
    // thorough tier (nesting depth 3): the full depth on every 8th state of each space, depth 2 on the others - the
    // spaces are ~60 times larger than the quick ones and depth 3 costs ~20 times depth 2
    let nest = if nest_param >= 3 && ctx.index % 8 != 0 { 2 } else { nest_param };
    for (how, mut g) in games(ctx, acc, true) {
        // (c) pure queries
        let r = guarded(|| {
            let d0 = g.verif_dump();
            let o0 = observe(&mut g);
            let d1 = g.verif_dump();
            if d0 != d1 {
                return Err(format!("asking for fen/display/move lists changed the game: {}", diff_dump(&d0, &d1)));
            }
            let _ = g.fen();
            let _ = g.get_pgn();
            let _ = format!("{}", g);
            let c = g.clone();
            let _ = moves(&mut g, true);
            let d2 = g.verif_dump();
            if d0 != d2 {
                return Err(format!("get_moves(true) changed the game: {}", diff_dump(&d0, &d2)));
            }
            if c.verif_dump() != d0 {
                return Err("clone differs from the original".to_string());
            }
            let o1 = observe(&mut g);
            if o0 != o1 {
                return Err(format!("observables changed by queries: {}", diff_obs(&o0, &o1)));
            }
            // (a) every unchecked move: push; pop; all observables
            let list = moves(&mut g, false);
            for m in list.iter() {
                g.push(*m);
                g.pop(*m);
                let d3 = g.verif_dump();
                if d3 != d0 {
                    return Err(format!("push/pop of {} did not restore the game: {}", m.uci_notation(), diff_dump(&d0, &d3)));
                }
            }
            let o2 = observe(&mut g);
            if o0 != o2 {
                return Err(format!("observables changed by push/pop round trips: {}", diff_obs(&o0, &o2)));
            }
            // (a') excursions that END with a query in the child (what a search does at a leaf: generate, stand pat,
            // take back): state hidden from the dump (lazily cached answers) must not leak into the parent's answers
            let checked0: Vec<String> = moves(&mut g, true).iter().map(|m| m.uci_notation()).collect();
            let unchecked0: Vec<String> = list.iter().map(|m| m.uci_notation()).collect();
            // thorough tier: the spaces are ~60 times larger and nesting depth 3 already dominates; the child-query
            // excursions run on every 16th state there (all of them in the quick tier)
            let do_excursions = nest_param <= 2 || ctx.index % 16 == 0;
            for m in list.iter().filter(|_| do_excursions) {
                for child_query in [false, true] {
                    g.push(*m);
                    let _ = moves(&mut g, child_query);
                    g.pop(*m);
                    let c1: Vec<String> = moves(&mut g, true).iter().map(|m| m.uci_notation()).collect();
                    if c1 != checked0 {
                        return Err(format!("after push({}), get_moves({}) in the child and take-back, the checked list is {:?}, before it was {:?}", m.uci_notation(), child_query, c1, checked0));
                    }
                    g.push(*m);
                    let _ = moves(&mut g, child_query);
                    g.pop(*m);
                    let u1: Vec<String> = moves(&mut g, false).iter().map(|m| m.uci_notation()).collect();
                    if u1 != unchecked0 {
                        return Err(format!("after push({}), get_moves({}) in the child and take-back, the unchecked list is {:?}, before it was {:?}", m.uci_notation(), child_query, u1, unchecked0));
                    }
                }
            }
            if g.verif_dump() != d0 {
                return Err("child-query excursions changed the game".to_string());
            }
            Ok(list.len() * 5)
        });
        match r {
            Err(p) => {
                vio(acc, ctx, "c03-panic", format!("panic during queries / round trips ({} game): {}", how, p));
                continue;
            }
            Ok(Err(e)) => {
                vio(acc, ctx, "c03-query", format!("{} ({} game)", e, how));
                continue;
            }
            Ok(Ok(n)) => acc.transitions += n as u64,
        }
        // (b) nested sequences over unchecked moves
        let mut fail = None;
        let mut trail = vec![];
        let r = guarded(|| c03_nested(&mut g, nest, acc, &mut trail, &mut fail));
        if let Err(p) = r {
            vio(acc, ctx, "c03-nested-panic", format!("panic during nested push/pop ({} game): {}", how, p));
        } else if let Some(e) = fail {
            vio(acc, ctx, "c03-nested", format!("{} ({} game)", e, how));
        }
        acc.evaluations += 1;
        acc.outcome(format!("{} game, check={}, kings can be captured={}", how, ctx.pos.in_check(ctx.pos.white), ctx.pos.pseudo_legal().iter().any(|m| m.captured != 0 && kind_of(m.captured) == K)));
    }
    if acc.states % 500_000 == 1 {
        acc.sample(ctx.describe());
    }
}

// =========================================================================== C04

pub fn c04_visit(ctx: &StateCtx, acc: &mut Acc) {
    let want = keys().hash(ctx.pos);
    let model_legal = ctx.pos.legal();
    // the reached game is built both ways: with push (what a search does) and with push_history (what the `position`
    // command and self-play do: it also runs the phase update, which re-scores the kings through set_position)
    let mut all = games(ctx, acc, false);
    if ctx.root.is_some() && !ctx.path.is_empty() {
        all.extend(games(ctx, acc, true).into_iter().filter(|(how, _)| *how == "reached").map(|(_, g)| ("reached by push_history", g)));
    }
    for (how, mut g) in all {
        acc.evaluations += 1;
        acc.outcome(format!("{} game, side={}, rights={}, ep={}", how, if ctx.pos.white { 'w' } else { 'b' }, ctx.pos.rights_field(), ctx.pos.engine_ep_file()));
        if g.hash() != want {
            vio(acc, ctx, "hash", format!("hash() = {:X} but the key file gives {:X} ({} game)", g.hash(), want, how));
            continue;
        }
        for m in &model_legal {
            let t = m.uci();
            let Some(em) = find_move(&mut g, &t) else { continue };
            let succ = ctx.pos.apply(m);
            let want_s = keys().hash(&succ);
            let r = guarded(|| {
                g.push(em);
                let h = g.hash();
                g.pop(em);
                (h, g.hash())
            });
            acc.transitions += 1;
            match r {
                Err(p) => {
                    vio(acc, ctx, &format!("hash-panic|{}", t), format!("panic in push/pop {}: {}", t, p));
                    break;
                }
                Ok((h, back)) => {
                    if h != want_s {
                        vio(acc, ctx, &format!("hash-succ|{}", t), format!("after {} hash() = {:X} but the key file gives {:X} for {} ({} game)", t, h, want_s, succ.fen4(false), how));
                    }
                    if back != want {
                        vio(acc, ctx, &format!("hash-back|{}", t), format!("after {} and take-back hash() = {:X}, expected {:X} ({} game)", t, back, want, how));
                    }
                }
            }
        }
    }
    if acc.states % 500_000 == 1 {
        acc.sample(json::obj(vec![("fen", json::s(ctx.pos.fen6(false))), ("hash", json::s(format!("{:X}", want)))]));
    }
}

// =========================================================================== C11

pub fn c11_visit(ctx: &StateCtx, acc: &mut Acc) {
    let want_moves = ctx.pos.legal_uci_sorted();
    // the reached game both ways: push only, and push_history (the game record grows: the move counters of the
    // exported text count its plies - three digits from move 100 on)
    let mut all = games(ctx, acc, false);
    if ctx.root.is_some() && !ctx.path.is_empty() {
        all.extend(games(ctx, acc, true).into_iter().filter(|(how, _)| *how == "reached").map(|(_, g)| ("reached by push_history", g)));
    }
    for (how, mut g) in all {
        acc.evaluations += 1;
        let fen = g.fen();
        let f: Vec<&str> = fen.split(' ').collect();
        if f.len() != 6 || fen.contains("  ") || fen.starts_with(' ') || fen.ends_with(' ') {
            vio(acc, ctx, "fen-fields", format!("fen() = {:?} is not six single-space-separated fields ({} game)", fen, how));
            continue;
        }
        let parsed = parse_fen_strict(&fen);
        let Ok(parsed) = parsed else {
            vio(acc, ctx, "fen-grammar", format!("fen() = {:?} is not well-formed: {} ({} game)", fen, parsed.unwrap_err(), how));
            continue;
        };
        let model_text = ctx.pos.fen4(false);
        let got4 = f[..4].join(" ");
        if got4 != model_text {
            vio(acc, ctx, "fen-text", format!("fen() fields 1-4 = {:?} but the position is {:?} ({} game)", got4, model_text, how));
            continue;
        }
        let _ = parsed;
        match guarded(|| Game::new(&fen)) {
            Err(p) => vio(acc, ctx, "fen-reimport-panic", format!("Game::new(fen()) panicked on {:?}: {}", fen, p)),
            Ok(Err(e)) => vio(acc, ctx, "fen-reimport", format!("Game::new(fen()) refused {:?}: {}", fen, e)),
            Ok(Ok(mut g2)) => {
                let d1 = g.verif_dump();
                let d2 = g2.verif_dump();
                if dump_core(&d1) != dump_core(&d2) {
                    vio(acc, ctx, "fen-roundtrip", format!("re-imported game differs in placement/side/rights/ep ({} game): {:?} vs {:?}", how, g.fen(), g2.fen()));
                } else if g.hash() != g2.hash() {
                    vio(acc, ctx, "fen-roundtrip-hash", format!("re-imported game has hash {:X}, exporting game {:X} ({} game)", g2.hash(), g.hash(), how));
                } else {
                    let a = sorted(move_texts(&mut g, true));
                    let b = sorted(move_texts(&mut g2, true));
                    if a != b || a != want_moves {
                        vio(acc, ctx, "fen-roundtrip-moves", format!("legal moves differ after re-import ({} game): {:?} vs {:?}", how, a, b));
                    }
                }
                acc.transitions += 1;
            }
        }
        if ctx.pos.engine_ep_file() != 8 {
            acc.count(if ctx.pos.white { "states with en-passant file (white to move)" } else { "states with en-passant file (black to move)" });
        }
        acc.outcome(format!("rights {}", ctx.pos.rights_field()));
    }
    if acc.states % 500_000 == 1 {
        acc.sample(json::obj(vec![("fen", json::s(ctx.pos.fen6(false)))]));
    }
}

// =========================================================================== C16

pub fn c16_visit(ctx: &StateCtx, acc: &mut Acc) {
    let s_mid = psq_sum(ctx.pos, false);
    let s_end = psq_sum(ctx.pos, true);
    let check = |g: &Game, how: &str, acc: &mut Acc| -> bool {
        let d = g.verif_dump();
        let end = d.score_tables[5] == 6;
        let want = if end { s_end } else { s_mid };
        acc.evaluations += 1;
        acc.outcome(format!("phase_end={} table_end={}", d.phase_is_endgame, end));
        if g.score() as i32 != want {
            let which = if g.score() as i32 == s_mid {
                "it equals the all-middlegame sum"
            } else if g.score() as i32 == s_end {
                "it equals the all-endgame sum"
            } else {
                "it equals neither"
            };
            vio(acc, ctx, &format!("score|{}", how), format!("score() = {} but the piece-square sum with the {} king table in force is {} (middlegame sum {}, endgame sum {}; {}) [{}]", g.score(), if end { "endgame" } else { "middlegame" }, want, s_mid, s_end, which, how));
            return false;
        }
        if d.phase_is_endgame != end {
            vio(acc, ctx, &format!("phase|{}", how), format!("phase flag endgame={} but king table endgame={} [{}]", d.phase_is_endgame, end, how));
            return false;
        }
        true
    };
    // as loaded
    let mut loaded_score = None;
    let mut loaded_end = None;
    if let Ok(g) = load(ctx.pos) {
        if check(&g, "loaded", acc) {
            loaded_score = Some(g.score());
            loaded_end = Some(g.verif_dump().phase_is_endgame);
        }
        // mirror
        let mp = ctx.pos.mirror();
        if let Ok(gm) = load(&mp) {
            if gm.score() != -g.score() {
                vio(acc, ctx, "mirror", format!("score() = {} but the colour-mirrored position {} scores {}", g.score(), mp.fen4(false), gm.score()));
            }
        }
        // after the queries and excursions of a search
        let mut g2 = g.clone();
        let r = guarded(|| {
            let l = moves(&mut g2, true);
            for m in l.iter() {
                g2.push(*m);
                let l2 = moves(&mut g2, false);
                for m2 in l2.iter().take(4) {
                    g2.push(*m2);
                    g2.pop(*m2);
                }
                g2.pop(*m);
            }
        });
        if r.is_ok() {
            check(&g2, "loaded, after a push/pop excursion", acc);
        }
    } else {
        vio(acc, ctx, "load", "cannot load".into());
    }
    // as reached: push only, and push_history
    if let Some(root) = ctx.root {
        if !ctx.path.is_empty() {
            for history in [false, true] {
                if let Ok(mut g) = load(root) {
                    if guarded(|| replay(&mut g, ctx.path, history)).map_or(false, |r| r.is_ok()) {
                        let how = if history { "reached by push_history" } else { "reached by push" };
                        if check(&g, how, acc) {
                            if let (Some(ls), Some(le)) = (loaded_score, loaded_end) {
                                if le == g.verif_dump().phase_is_endgame && ls != g.score() {
                                    vio(acc, ctx, "route", format!("route dependence: loaded game scores {} but {} scores {} in the same phase", ls, how, g.score()));
                                }
                            }
                        }
                        acc.transitions += ctx.path.len() as u64;
                    }
                }
            }
        }
    }
    // one further step with push_history from the loaded game (phase may switch here)
    if let Ok(g) = load(ctx.pos) {
        for m in ctx.pos.legal().iter() {
            let mut h = g.clone();
            let t = m.uci();
            let Some(em) = find_move(&mut h, &t) else { continue };
            let ok = guarded(|| h.push_history(em)).is_ok();
            acc.transitions += 1;
            if ok {
                let succ = ctx.pos.apply(m);
                let d = h.verif_dump();
                let end = d.score_tables[5] == 6;
                let want = psq_sum(&succ, end);
                if h.score() as i32 != want {
                    vio(acc, ctx, &format!("score-step|{}", t), format!("after push_history({}) score() = {} but the piece-square sum with the {} king table is {}", t, h.score(), if end { "endgame" } else { "middlegame" }, want));
                }
                // and a second history step (the phase update runs before the move is made)
                if let Some(m2) = succ.legal().first() {
                    if let Some(em2) = find_move(&mut h, &m2.uci()) {
                        if guarded(|| h.push_history(em2)).is_ok() {
                            let succ2 = succ.apply(m2);
                            let d = h.verif_dump();
                            let end = d.score_tables[5] == 6;
                            let want = psq_sum(&succ2, end);
                            acc.transitions += 1;
                            if end != d.phase_is_endgame {
                                vio(acc, ctx, &format!("phase-step2|{}", t), format!("after push_history({} {}) phase flag and king table disagree", t, m2.uci()));
                            }
                            if h.score() as i32 != want {
                                vio(acc, ctx, &format!("score-step2|{}", t), format!("after push_history({} {}) score() = {} but the piece-square sum with the {} king table is {}", t, m2.uci(), h.score(), if end { "endgame" } else { "middlegame" }, want));
                            }
                        }
                    }
                }
            }
        }
    }
    if acc.states % 500_000 == 1 {
        acc.sample(json::obj(vec![("fen", json::s(ctx.pos.fen6(false))), ("sum_middlegame_tables", json::i(s_mid)), ("sum_endgame_tables", json::i(s_end))]));
    }
}

// =========================================================================== drivers

fn common_assumptions() -> Vec<String> {
    vec![
        "bounded by piece count: all positions with <= 3 men, the listed 4-5 men families, castling/en-passant families with <= 2 extra pieces, and all positions within the stated BFS depth of the listed middlegame roots (DESIGN.md section 7)".into(),
        "the reference model (refchess.rs) is trusted after reproducing the published perft numbers and the rule cases at the start of this run".into(),
        "the harness compiles /repo/src in place with --cfg daniel729_chess_verif in the 'checked' profile (debug assertions and overflow checks on)".into(),
    ]
}

/// C16 through the interface: the route "two `position` commands in a row" (text import over an existing game, moves
/// played into the record over an existing game). The score is not printed by `show`; what the interface lets one see
/// of it is the `info score cp` of a search. For every ordered pair (X, Y) over a set of position commands (five
/// starts in both phases, every path of length <= 2 over the first three moves in text order and every capture) the
/// scores printed by `X ; Y ; go depth 2` must equal those of a fresh engine given `Y ; go depth 2` (no search precedes
/// the measured one, so the table is empty in both sessions and only the game itself can differ).
pub fn c16_uci_routes(acc: &mut Acc) -> SpaceReport {
    use crate::props::c12::uci_seq;
    let t0 = std::time::Instant::now();
    let mut items: Vec<String> = vec![];
    let starts: Vec<(String, Pos)> = vec![
        ("startpos".to_string(), Pos::startpos()),
        (format!("fen {}", ROOT_KIWI), parse_fen_strict(ROOT_KIWI).unwrap().pos.normalised()),
        (format!("fen {}", ROOT_LADDER_OPEN), parse_fen_strict(ROOT_LADDER_OPEN).unwrap().pos.normalised()),
        ("fen 8/8/4k3/8/8/3K4/4P3/8 w - - 0 1".to_string(), parse_fen_strict("8/8/4k3/8/8/3K4/4P3/8 w - - 0 1").unwrap().pos.normalised()),
        ("fen 6k1/1P3ppp/8/8/8/8/1p3PPP/6K1 w - - 0 1".to_string(), parse_fen_strict("6k1/1P3ppp/8/8/8/8/1p3PPP/6K1 w - - 0 1").unwrap().pos.normalised()),
    ];
    for (setup, root) in &starts {
        let pick = |p: &Pos| -> Vec<Mv> {
            let mut l = p.legal();
            l.sort_by_key(|m| m.uci());
            let mut v: Vec<Mv> = l.iter().take(3).cloned().collect();
            v.extend(l.iter().skip(3).filter(|m| m.captured != 0 || m.kind == MvKind::Promotion).take(3).cloned());
            v
        };
        items.push(format!("position {}", setup));
        for m1 in pick(root) {
            let p1 = root.apply(&m1).normalised();
            items.push(format!("position {} moves {}", setup, m1.uci()));
            for m2 in pick(&p1) {
                items.push(format!("position {} moves {} {}", setup, m1.uci(), m2.uci()));
            }
        }
    }
    let scores = |t: &[String]| -> Vec<i32> { crate::srch::info_scores(t) };
    // fresh sessions, one per item
    let fresh: Vec<Result<Vec<String>, String>> = {
        let r = std::sync::Mutex::new(vec![None; items.len()]);
        let _ = par_items(&(0..items.len()).collect::<Vec<_>>(), &|_, &i, _| {
            let t = uci_seq(vec![items[i].clone(), "go depth 2".into(), "wait".into()]);
            r.lock().unwrap()[i] = Some(t);
        });
        r.into_inner().unwrap().into_iter().map(|x| x.unwrap()).collect()
    };
    let n = items.len();
    let idx: Vec<usize> = (0..n * n).collect();
    let a = par_items(&idx, &|_, &k, acc| {
        let (x, y) = (k / n, k % n);
        let Ok(want) = &fresh[y] else {
            acc.count("fresh session failed (judged by C14)");
            return;
        };
        acc.evaluations += 1;
        let text = format!("{} ; {} ; go depth 2", items[x], items[y]);
        let replay = json::obj(vec![("kind", json::s("c16-uci")), ("first", json::s(items[x].clone())), ("second", json::s(items[y].clone()))]);
        // second route: the first game is searched (depth 1) before the second position arrives - whatever the engine
        // keeps from a finished search (a working copy of the game, buffers) meets a game of the other phase
        // (only for games from different starts: the first search leaves its root in the table, and a game from the
        // same start could meet that entry - a legitimate difference that has nothing to do with the evaluation)
        let setup = |t: &str| t.split(" moves ").next().unwrap_or("").to_string();
        if setup(&items[x]) != setup(&items[y]) {
        match uci_seq(vec![items[x].clone(), "go depth 1".into(), "wait".into(), "isready".into(), items[y].clone(), "go depth 2".into(), "wait".into()]) {
            Err(e) => acc.violation(format!("c16-uci-died|{} (search between)", text), format!("session died: {} [{} with go depth 1 after the first command]", e, text), replay.clone()),
            Ok(got) => {
                acc.transitions += 1;
                let cut = got.iter().position(|l| l == "readyok").map(|i| i + 1).unwrap_or(0);
                let (a, b) = (scores(&got[cut..]), scores(want));
                if a != b {
                    acc.violation(format!("c16-uci-search-between|{}", text), format!("scores {:?} after an earlier position command that was searched, {:?} on a fresh engine: the evaluation depends on the route [{} ; go depth 1 ; wait ; {} ; go depth 2]", a, b, items[x], items[y]), replay.clone());
                }
            }
        }
        }
        match uci_seq(vec![items[x].clone(), items[y].clone(), "go depth 2".into(), "wait".into()]) {
            Err(e) => acc.violation(format!("c16-uci-died|{}", text), format!("session died: {} [{}]", e, text), replay),
            Ok(got) => {
                acc.transitions += 1;
                let (a, b) = (scores(&got), scores(want));
                if a != b {
                    acc.violation(format!("c16-uci|{}", text), format!("scores {:?} after an earlier position command, {:?} on a fresh engine: the evaluation depends on the route [{}]", a, b, text), replay);
                } else if got != *want {
                    acc.count("sessions whose scores agree but whose other lines differ from the fresh engine (not judged here)");
                }
                if !a.is_empty() {
                    acc.count("route pairs with a score to compare");
                }
            }
        }
    });
    let states = (n * n) as u64;
    acc.merge(a);
    acc.states += states;
    SpaceReport { name: format!("interface routes: ordered pairs of position commands over {} items (five starts, paths of length <= 2), with and without a depth-1 search of the first game in between; scores of a depth-2 search against a fresh engine", n), states, exhaustive: true, note: format!("[{:.1}s]", t0.elapsed().as_secs_f64()) }
}

pub fn run(prop: &str, tier: &str, seed: i64) -> Outcome {
    let (spaces, visitor, rule): (Vec<Space>, Box<dyn Fn(&StateCtx, &mut Acc) + Sync>, &str) = match prop {
        "C01" => (core_spaces(tier, seed, false), Box::new(c01_visit), "every state of every listed space: engine checked list == model legal set (as multisets of UCI strings), unchecked list superset whose extras are model-pseudo-legal and self-check; on the FEN-loaded game and on the game reached by replaying the BFS path"),
        "C02" => (core_spaces(tier, seed, false), Box::new(c02_visit), "every legal move out of every state (FEN-loaded game and game reached by replaying the BFS path): after the real push, placement/side/rights/ep nibble (from the dump and, independently, from fen()) == model apply()"),
        "C03" => {
            let nest = if tier == "quick" { 2 } else { 3 };
            (core_spaces(tier, seed, true), Box::new(move |c: &StateCtx, a: &mut Acc| c03_visit_depth(c, a, nest)), "every state: queries leave the full dump unchanged; every unchecked move push;pop restores the full dump and all public observables; all nested push/pop sequences over unchecked moves to the stated nesting depth")
        }
        "C04" => (core_spaces(tier, seed, false), Box::new(c04_visit), "every state (loaded and reached) and every transition: hash() == XOR of the key-file entries computed by the harness from zobrist_bytes.bin"),
        "C11" => (core_spaces(tier, seed, false), Box::new(c11_visit), "every state (loaded and reached): fen() is six well-formed fields, fields 1-4 string-equal the model's rendering, Game::new(fen()) has the same core, hash and legal moves"),
        "C16" => (core_spaces(tier, seed, true), Box::new(c16_visit), "every state as loaded / reached by push / reached by push_history / after push-pop excursions / after one and two push_history steps: score() == piece-square sum with the king table in force; mirror negation; route independence"),
        _ => unreachable!(),
    };
    let (mut acc, mut reports) = run_spaces(&spaces, &*visitor);
    if prop == "C01" {
        match real_perft_stage(&mut acc) {
            Some(r) => reports.push(r),
            None => acc.errors.push("VERIF_REAL_BIN not set or missing: the real-binary perft stage was not run".into()),
        }
    }
    if prop == "C16" {
        let r = c16_uci_routes(&mut acc);
        reports.push(r);
    }
    let mut out = Outcome::new(acc, reports, rule);
    out.traces_validated = out.acc.transitions;
    out.assumptions = common_assumptions();
    if prop == "C04" {
        // literature anchor
        let start = Pos::startpos();
        let h = keys().hash(&start);
        out.extra.push(("startpos_hash_from_key_file".into(), json::s(format!("{:X}", h))));
        if h != 0xD9C54592621D7040 {
            out.acc.errors.push(format!("harness key layout does not reproduce the README constant: {:X}", h));
        }
        match load(&start) {
            Ok(g) if g.hash() == 0xD9C54592621D7040 => {}
            Ok(g) => out.acc.violation("startpos-constant", format!("start position hashes to {:X}, README promises D9C54592621D7040", g.hash()), json::obj(vec![("kind", json::s("state")), ("fen", json::s(ROOT_START))])),
            Err(e) => out.acc.errors.push(e),
        }
    }
    out
}

/// C01 through the REAL binary's command line (`rustybait perft <d> <fen> [moves..]`, the property's second
/// observation point; binds main.rs and the release build to what the explorers check in-process): the divide output
/// must list exactly the model's legal moves with the model's subtree counts.
pub fn real_perft_stage(acc: &mut Acc) -> Option<SpaceReport> {
    let bin = crate::realbin::real_bin()?;
    let t0 = std::time::Instant::now();
    let ep_root = "rnbqkbnr/ppp1p1pp/8/3pPp2/8/8/PPPP1PPP/RNBQKBNR w KQkq f6 0 3";
    let cases: Vec<(&str, u32, Vec<&str>)> = vec![
        (ROOT_START, 1, vec![]), (ROOT_START, 2, vec![]), (ROOT_START, 3, vec![]), (ROOT_START, 2, vec!["e2e4", "d7d5", "e4e5", "f7f5"]),
        (ROOT_KIWI, 1, vec![]), (ROOT_KIWI, 2, vec![]), (ROOT_KIWI, 2, vec!["e1g1"]), (ROOT_KIWI, 2, vec!["e1c1", "e8g8"]),
        (ROOT_P3, 1, vec![]), (ROOT_P3, 3, vec![]), (ROOT_P4, 2, vec![]), (ROOT_P5, 2, vec![]), (ROOT_P6, 2, vec![]),
        (ROOT_PROMO, 1, vec![]), (ROOT_PROMO, 2, vec![]), (ROOT_PROMO, 2, vec!["g2h1n"]), (ROOT_RIGHTS, 2, vec![]), (ROOT_RIGHTS, 2, vec!["b7a8q"]),
        (ep_root, 1, vec![]), (ep_root, 2, vec![]), (ep_root, 2, vec!["e5f6"]), (ROOT_KRK, 2, vec![]), (ROOT_KPK, 3, vec![]),
    ];
    let n = cases.len();
    let res = par_items(&cases, &|_, (fen, d, mvs), acc| {
        acc.states += 1;
        acc.evaluations += 1;
        let Ok(parsed) = parse_fen_strict(fen) else { return };
        let mut p = parsed.pos.normalised();
        for t in mvs {
            let Some(m) = p.legal().into_iter().find(|m| &m.uci() == t) else { return };
            p = p.apply(&m).normalised();
        }
        let mut want: Vec<(String, u64)> = p.legal().iter().map(|m| (m.uci(), if *d > 1 { perft(&p.apply(m).normalised(), d - 1) } else { 1 })).collect();
        want.sort();
        let total: u64 = want.iter().map(|x| x.1).sum();
        let mut cmd = std::process::Command::new(&bin);
        cmd.arg("perft").arg(d.to_string()).arg(fen);
        for t in mvs {
            cmd.arg(t);
        }
        let key = format!("real-perft|{}|{}|{}", fen, d, mvs.join(" "));
        let replay = json::obj(vec![("kind", json::s("c01-real-perft"))]);
        let out = match cmd.stdin(std::process::Stdio::null()).output() {
            Ok(o) => o,
            Err(e) => {
                acc.errors.push(format!("cannot run {}: {}", bin, e));
                return;
            }
        };
        let text = String::from_utf8_lossy(&out.stdout).to_string();
        if !out.status.success() {
            acc.violation(key, format!("`rustybait perft {} \"{}\" {}` exited with {:?}: {}", d, fen, mvs.join(" "), out.status.code(), String::from_utf8_lossy(&out.stderr).lines().last().unwrap_or("")), replay);
            return;
        }
        // the divide block is the tail of the output: `<move>: <count>` lines, an empty line, the total
        let lines: Vec<&str> = text.lines().collect();
        let mut got: Vec<(String, u64)> = vec![];
        let mut got_total = None;
        for l in lines.iter().rev() {
            if got_total.is_none() {
                if let Ok(t) = l.trim().parse::<u64>() {
                    got_total = Some(t);
                }
                continue;
            }
            if l.trim().is_empty() && got.is_empty() {
                continue;
            }
            match l.split_once(": ") {
                Some((m, c)) if m.len() <= 5 && c.trim().parse::<u64>().is_ok() => got.push((m.to_string(), c.trim().parse().unwrap())),
                _ => break,
            }
        }
        got.sort();
        acc.transitions += want.len() as u64;
        if got != want || got_total != Some(total) {
            let missing: Vec<&(String, u64)> = want.iter().filter(|x| !got.contains(x)).collect();
            let extra: Vec<&(String, u64)> = got.iter().filter(|x| !want.contains(x)).collect();
            acc.violation(key, format!("`rustybait perft {} \"{}\" {}`: divide differs from the legal moves / subtree counts of the rules: missing {:?}, extra {:?}, total {:?} (rules: {})", d, fen, mvs.join(" "), missing, extra, got_total, total), replay);
        } else {
            acc.outcome("real binary perft divide equals the rules");
        }
    });
    acc.merge(res);
    Some(SpaceReport { name: format!("real binary {}: `perft <d> <fen> [moves]` divide output for {} (root, depth, move prefix) cases against the model's legal moves and subtree counts", bin, n), states: n as u64, exhaustive: true, note: format!("[{:.1}s]", t0.elapsed().as_secs_f64()) })
}

/// re-run one state through a property's visitor (for --replay)
pub fn replay_state(prop: &str, j: &J) -> Result<Acc, String> {
    if j.get("kind").and_then(|x| x.as_str()) == Some("c01-real-perft") {
        let mut acc = Acc::new();
        real_perft_stage(&mut acc);
        return Ok(acc);
    }
    if j.get("kind").and_then(|x| x.as_str()) == Some("c16-uci") {
        let mut acc = Acc::new();
        let _ = c16_uci_routes(&mut acc);
        return Ok(acc);
    }
    let fen = j.get("fen").and_then(|x| x.as_str()).ok_or("replay lacks fen")?;
    let pos = parse_fen_strict(fen)?.pos.normalised();
    let rootp = match j.get("root").and_then(|x| x.as_str()) {
        Some(r) => Some(parse_fen_strict(r)?.pos.normalised()),
        None => None,
    };
    let mut path = vec![];
    if let (Some(r), Some(p)) = (rootp.as_ref(), j.get("path").and_then(|x| x.as_str())) {
        let mut cur = *r;
        for t in p.split_whitespace() {
            let m = cur.legal().into_iter().find(|m| m.uci() == t).ok_or(format!("path move {} not legal in model", t))?;
            path.push(m);
            cur = cur.apply(&m).normalised();
        }
    }
    let ctx = StateCtx { pos: &pos, root: rootp.as_ref(), path: &path, space: "replay", index: 0 };
    let mut acc = Acc::new();
    acc.states = 1;
    match prop {
        "C01" => c01_visit(&ctx, &mut acc),
        "C02" => c02_visit(&ctx, &mut acc),
        "C03" => c03_visit_depth(&ctx, &mut acc, 3),
        "C04" => c04_visit(&ctx, &mut acc),
        "C11" => c11_visit(&ctx, &mut acc),
        "C16" => c16_visit(&ctx, &mut acc),
        "C20" => crate::props::c20::c20_visit(&ctx, &mut acc),
        "C12" => crate::props::c12::roundtrip_visit(&ctx, &mut acc),
        _ => return Err(format!("no state replay for {}", prop)),
    }
    Ok(acc)
}
