//! C17: FEN import is faithful and rejects malformed text without crashing.
//! E6: the complete 1-edit neighbourhood (insert / delete / replace over a
//! stated alphabet) of every base string, every truncation, and distance-2
//! edits on the digits and slashes of the board field.
#![allow(dead_code)]

use crate::bind::*;
use crate::chess::Game;
use crate::explore::*;
use crate::json::{self, J};
use crate::props::c12::{parse_show, uci_seq, Shown};
use crate::props::core::*;
use crate::refchess::*;
use crate::report::Outcome;
use crate::universe::Universe;

pub fn flavour() -> &'static str {
    if cfg!(debug_assertions) {
        "checked"
    } else {
        "plain"
    }
}

const SIGMA: &[&str] = &[
    "0", "1", "2", "3", "4", "5", "6", "7", "8", "9", "/", " ", "-", "w", "b", "K", "Q", "R", "B", "N", "P", "k", "q", "r", "n", "p", "a", "c", "d", "e", "f", "g", "h", "i", "A", "x", "Z", "é", "♔",
];

#[derive(Debug, Clone, PartialEq)]
pub enum Class {
    /// strictly well-formed, sane position
    WellSane,
    /// strictly well-formed text of a position outside the property's domain (two kings, pawn on rank 1, rights without rook ...)
    WellInsane,
    /// debatable text with one obvious reading
    Grey(String),
    Malformed(String),
}

pub fn classify(text: &str) -> (Class, Option<ParsedFen>) {
    match parse_fen(text) {
        Err(e) => (Class::Malformed(e), None),
        Ok(p) => {
            // sanity is judged on the position with its ep target kept only if consistent
            let sane = {
                let mut q = p.pos;
                if q.ep.is_some() && !q.sane() {
                    // an ep square that cannot have arisen makes the position insane
                    q.ep = p.pos.ep;
                }
                q.sane()
            };
            if let Some(g) = p.grey.first() {
                (Class::Grey(g.to_string()), Some(p))
            } else if sane {
                (Class::WellSane, Some(p))
            } else {
                (Class::WellInsane, Some(p))
            }
        }
    }
}

fn import(text: &str) -> Result<Result<Game, String>, String> {
    guarded(|| Game::new(text)).map(|r| r.map_err(|e| e.to_string()))
}

/// compare an imported game with the position the text describes
fn faithful(g: &mut Game, p: &ParsedFen, check_moves: bool) -> Result<(), String> {
    let d = g.verif_dump();
    let (b, w, r, e) = dump_core(&d);
    if b != p.pos.b {
        return Err(format!("placement imported as {}", board_field(&b)));
    }
    if w != p.pos.white {
        return Err("side to move altered".into());
    }
    if r != p.pos.rights {
        return Err(format!("castling rights imported as {:04b}, text says {:04b} (bits qkQK)", r, p.pos.rights));
    }
    // en-passant nibble: the file given; when no capturer exists, dropping it is equally faithful
    let capturable = p.pos.engine_ep_file();
    if !(e == p.ep_file_given || (capturable == 8 && e == 8)) {
        return Err(format!("en-passant file imported as {}, text says {} (8 = none)", e, p.ep_file_given));
    }
    if check_moves {
        let mut got = move_texts(g, true);
        got.sort();
        let want = p.pos.legal_uci_sorted();
        if got != want {
            return Err(format!("legal moves after import {:?}, the position has {:?}", got, want));
        }
    }
    Ok(())
}

fn record(acc: &mut Acc, class: &str, outcome: &str, text: &str, what: String) {
    let key = format!("{}|{}|{}", flavour(), class, outcome);
    acc.violation(key, format!("[{} build] {}: {:?}", flavour(), what, text), json::obj(vec![("kind", json::s("c17-string")), ("text", json::s(text)), ("flavour", json::s(flavour()))]));
}

pub fn check_string(text: &str, acc: &mut Acc) {
    acc.evaluations += 1;
    let (class, parsed) = classify(text);
    let r = import(text);
    match (&class, r) {
        (Class::WellSane, Err(p)) => record(acc, "wellformed", "panic", text, format!("importing a well-formed FEN crashed: {}", p)),
        (Class::WellSane, Ok(Err(e))) => record(acc, "wellformed", "refused", text, format!("a well-formed FEN of a sane position was refused ({})", e)),
        (Class::WellSane, Ok(Ok(mut g))) => {
            acc.count("well-formed & sane: imported and compared");
            acc.transitions += 1;
            if let Err(e) = guarded(|| faithful(&mut g, parsed.as_ref().unwrap(), true)).unwrap_or_else(|p| Err(format!("panic while inspecting the imported game: {}", p))) {
                record(acc, "wellformed", "wrong-position", text, format!("well-formed FEN imported as a different position: {}", e));
            }
        }
        (Class::WellInsane, _) => acc.count("well-formed text of a position outside the domain (nothing demanded)"),
        (Class::Grey(g), Err(p)) => record(acc, &format!("grey:{}", g), "panic", text, format!("importing crashed: {}", p)),
        (Class::Grey(_), Ok(Err(_))) => acc.count("debatable text refused (fine)"),
        (Class::Grey(g), Ok(Ok(mut game))) => {
            let p = parsed.as_ref().unwrap();
            if p.pos.sane() {
                acc.count("debatable text accepted with its obvious reading");
                if let Err(e) = guarded(|| faithful(&mut game, p, false)).unwrap_or_else(|p| Err(format!("panic: {}", p))) {
                    record(acc, &format!("grey:{}", g), "wrong-position", text, format!("accepted, but not as the position the text spells: {}", e));
                }
            } else {
                acc.count("debatable text of a position outside the domain (nothing demanded)");
            }
        }
        (Class::Malformed(m), Err(p)) => {
            acc.count("malformed: crash");
            record(acc, &format!("malformed:{}", generalise(m)), "panic", text, format!("malformed FEN ({}) crashed the reader: {}", m, p));
        }
        (Class::Malformed(_), Ok(Err(_))) => acc.count("malformed: refused"),
        (Class::Malformed(m), Ok(Ok(g))) => {
            acc.count("malformed: accepted");
            record(acc, &format!("malformed:{}", generalise(m)), "accepted", text, format!("malformed FEN ({}) was imported (as {:?})", m, g.fen()));
        }
    }
    acc.outcome(match &class {
        Class::WellSane => "well-formed sane".to_string(),
        Class::WellInsane => "well-formed insane".to_string(),
        Class::Grey(g) => format!("grey: {}", g),
        Class::Malformed(m) => format!("malformed: {}", generalise(m)),
    });
}

fn generalise(m: &str) -> String {
    if m.starts_with("truncated") {
        "truncated".into()
    } else if m.starts_with("digit") {
        m.to_string()
    } else {
        m.to_string()
    }
}

/// A refused text must stay refused however often it is sent and whatever was loaded before: `position fen <valid>;
/// position fen <bad>; position fen <bad>; show; isready` (and the same without the valid one). After the last command
/// no game may be shown.
pub fn check_refusal_is_stable(valid: &str, bad: &str, acc: &mut Acc) {
    if !matches!(classify(bad).0, Class::Malformed(_)) {
        return;
    }
    for with_valid in [true, false] {
        let mut script = vec![];
        if with_valid {
            script.push(format!("position fen {}", valid));
        }
        script.push(format!("position fen {}", bad));
        script.push(format!("position fen {}", bad));
        script.push("show".to_string());
        script.push("isready".to_string());
        acc.evaluations += 1;
        match uci_seq(script) {
            Err(e) => record(acc, "uci-repeat", "session-died", bad, format!("sending a malformed FEN twice killed the session: {}", e)),
            Ok(t) => {
                let errors = t.iter().filter(|e| e.starts_with("error:") && !e.starts_with("error: No game to show")).count();
                let shown = t.iter().rev().nth(1).map(|e| parse_show(e));
                if errors < 2 || shown != Some(Shown::NoGame) {
                    record(acc, "uci-repeat", "accepted", bad, format!("a malformed FEN sent twice{}: {} error line(s) instead of 2, and `show` then prints {:?}", if with_valid { format!(" after `position fen {}`", valid) } else { String::new() }, errors, shown));
                } else {
                    acc.count("uci: malformed FEN sent twice (with and without a valid one before): refused both times");
                }
            }
        }
    }
}

/// the same string through the real UCI session
pub fn check_string_uci(text: &str, acc: &mut Acc) {
    let (class, parsed) = classify(text);
    acc.evaluations += 1;
    let r = uci_seq(vec![format!("position fen {}", text), "show".into(), "isready".into()]);
    let t = match r {
        Err(e) => {
            if !matches!(class, Class::WellInsane) {
                record(acc, "uci", "session-died", text, format!("`position fen` killed the session: {}", e));
            }
            return;
        }
        Ok(t) => t,
    };
    if t.last().map(|s| s.as_str()) != Some("readyok") {
        record(acc, "uci", "no-readyok", text, format!("session did not answer isready after `position fen`: {:?}", t));
        return;
    }
    let errors = t.iter().filter(|e| e.starts_with("error:") && !e.starts_with("error: No game to show")).count();
    let shown = t.iter().rev().nth(1).map(|e| parse_show(e));
    match class {
        Class::Malformed(m) => {
            if errors == 0 {
                record(acc, &format!("uci-malformed:{}", generalise(&m)), "accepted", text, format!("malformed FEN ({}) accepted by `position fen` without an error line", m));
            } else if shown != Some(Shown::NoGame) {
                record(acc, &format!("uci-malformed:{}", generalise(&m)), "game-left", text, format!("after refusing the FEN `show` printed {:?}", shown));
            } else {
                acc.count("uci: malformed refused, session alive");
            }
        }
        Class::WellSane => {
            let p = parsed.unwrap();
            match shown {
                Some(Shown::Game { fen, .. }) if errors == 0 => {
                    let f: Vec<&str> = fen.split(' ').collect();
                    if f.len() < 4 || f[0] != p.pos.placement_field() || f[1] != (if p.pos.white { "w" } else { "b" }) || f[2] != p.pos.rights_field() {
                        record(acc, "uci-wellformed", "wrong-position", text, format!("`show` displays {:?}", fen));
                    } else {
                        acc.count("uci: well-formed shown correctly");
                    }
                }
                o => record(acc, "uci-wellformed", "refused", text, format!("well-formed FEN not shown: errors {}, show {:?}", errors, o)),
            }
        }
        _ => acc.count("uci: grey/insane (only liveness demanded)"),
    }
}

pub fn edits_1(base: &str, limit_chars: usize) -> Vec<String> {
    let chars: Vec<char> = base.chars().collect();
    let n = limit_chars.min(chars.len());
    let mut out = vec![];
    let build = |pre: &[char], mid: &str, post: &[char]| -> String {
        let mut s: String = pre.iter().collect();
        s.push_str(mid);
        s.extend(post.iter());
        s
    };
    for i in 0..=n {
        for a in SIGMA {
            out.push(build(&chars[..i], a, &chars[i..]));
        }
    }
    for i in 0..n {
        out.push(build(&chars[..i], "", &chars[i + 1..]));
        for a in SIGMA {
            if a.chars().next() != Some(chars[i]) || a.chars().count() != 1 {
                out.push(build(&chars[..i], a, &chars[i + 1..]));
            }
        }
    }
    out
}

pub fn truncations(base: &str) -> Vec<String> {
    let chars: Vec<char> = base.chars().collect();
    (0..chars.len()).map(|i| chars[..i].iter().collect()).collect()
}

/// distance-2 replacements restricted to the digit and '/' positions of the board field
pub fn edits_2_board(base: &str) -> Vec<String> {
    let chars: Vec<char> = base.chars().collect();
    let end = chars.iter().position(|&c| c == ' ').unwrap_or(chars.len());
    let idx: Vec<usize> = (0..end).filter(|&i| chars[i].is_ascii_digit() || chars[i] == '/').collect();
    let repl: Vec<char> = "0123456789/".chars().collect();
    let mut out = vec![];
    for a in 0..idx.len() {
        for b in a + 1..idx.len() {
            for &x in &repl {
                for &y in &repl {
                    if x == chars[idx[a]] || y == chars[idx[b]] {
                        continue;
                    }
                    let mut c = chars.clone();
                    c[idx[a]] = x;
                    c[idx[b]] = y;
                    out.push(c.iter().collect());
                }
            }
        }
    }
    out
}

/// base strings: model-rendered FENs in the 4-, 5- and 6-field forms, ep engine-style and FIDE-style
pub fn bases(tier: &str, seed: i64) -> Vec<(String, String)> {
    let off = seed.unsigned_abs();
    let q = tier == "quick";
    let spaces = vec![
        Space::slice(Universe::U3, if q { 40_000 } else { 2_000 }, off),
        Space::slice(Universe::UC { extras: 1 }, if q { 1_500 } else { 60 }, off),
        Space::slice(Universe::UE { extras: 0, capturer_files: None, slider_only: false }, if q { 2_000 } else { 90 }, off),
        Space::bfs("startpos", ROOT_START, 2),
        Space::bfs("kiwipete", ROOT_KIWI, 1),
        Space::bfs("promo", ROOT_PROMO, 1),
        Space::bfs("rights", ROOT_RIGHTS, 1),
    ];
    let out = std::sync::Mutex::new(Vec::<(String, String)>::new());
    let bfs_stride = if q { 12 } else { 1 };
    let _ = run_spaces(&spaces, &|ctx, _| {
        if ctx.space.starts_with("BFS") && ctx.index % bfs_stride != 0 {
            return;
        }
        let mut v = vec![];
        // FIDE-style ep when the last move of the path was a double step
        let mut p = *ctx.pos;
        let mut fide = false;
        if let Some(last) = ctx.path.last() {
            if last.kind == MvKind::Double {
                p.ep = Some((last.from + last.to) / 2);
                fide = true;
            }
        }
        v.push((format!("{} 0 1", ctx.pos.fen4(false)), "6-field".to_string()));
        v.push((format!("{} 0", ctx.pos.fen4(false)), "5-field".to_string()));
        v.push((ctx.pos.fen4(false), "4-field".to_string()));
        if fide {
            v.push((format!("{} 0 1", p.fen4(true)), "6-field, FIDE-style ep".to_string()));
        }
        out.lock().unwrap().extend(v);
    });
    let mut v = out.into_inner().unwrap();
    v.sort();
    v.dedup();
    v
}

pub fn run_local(tier: &str, seed: i64) -> (Acc, Vec<SpaceReport>, usize) {
    let b = bases(tier, seed);
    let nb = b.len();
    let acc = par_items(&b, &|i, (base, form), acc| {
        acc.states += 1;
        acc.count(&format!("bases: {}", form));
        check_string(base, acc);
        let four_fields_len = {
            // edit positions: everything up to the end of field 4
            let mut spaces = 0;
            let mut n = base.chars().count();
            for (k, c) in base.chars().enumerate() {
                if c == ' ' {
                    spaces += 1;
                    if spaces == 4 {
                        n = k;
                        break;
                    }
                }
            }
            n
        };
        for s in edits_1(base, four_fields_len) {
            check_string(&s, acc);
            acc.count("1-edit neighbours");
        }
        for s in truncations(base) {
            check_string(&s, acc);
            acc.count("truncations");
        }
        // move counters: every all-digit halfmove clock / fullmove number a game can reach (and a little beyond) is
        // well-formed; the position must be imported whatever they say
        if form == "4-field" {
            const HALF: [u32; 17] = [0, 1, 2, 9, 10, 49, 50, 99, 100, 101, 149, 150, 255, 256, 999, 1000, 9999];
            const FULL: [u32; 19] = [1, 2, 9, 10, 99, 100, 127, 128, 199, 200, 201, 255, 256, 257, 300, 999, 1000, 5949, 9999];
            for h in HALF {
                check_string(&format!("{} {}", base, h), acc);
                acc.count("move-counter variants");
                for f in FULL {
                    let s = format!("{} {} {}", base, h, f);
                    check_string(&s, acc);
                    acc.count("move-counter variants");
                    if cfg!(debug_assertions) && (h as usize + f as usize + i) % 41 == 0 {
                        check_string_uci(&s, acc);
                    }
                }
            }
        }
        if i % 4 == 0 && form == "6-field" {
            for s in edits_2_board(base) {
                check_string(&s, acc);
                acc.count("2-edit board-arithmetic neighbours");
            }
        }
        // the real UCI path on a fixed-stride slice of the neighbours (checked flavour only; the session logic is the same)
        if cfg!(debug_assertions) {
            check_string_uci(base, acc);
            for (k, s) in edits_1(base, four_fields_len).iter().enumerate() {
                if k % 97 == i % 97 {
                    check_string_uci(s, acc);
                    acc.count("strings through `position fen` + show + isready");
                }
                if k % 389 == i % 389 {
                    check_refusal_is_stable(base, s, acc);
                }
            }
        }
        if acc.samples.len() < 3 {
            acc.sample(json::obj(vec![("base", json::s(base.clone())), ("form", json::s(form.clone())), ("neighbour_examples", json::strs(&edits_1(base, four_fields_len).iter().step_by(601).take(6).cloned().collect::<Vec<_>>()))]));
        }
    });
    (acc, vec![SpaceReport { name: format!("base FENs ({} flavour)", flavour()), states: nb as u64, exhaustive: true, note: "complete 1-edit neighbourhood over the 39-symbol alphabet within fields 1-4, all truncations, 2-edit digit/slash neighbourhood for every 4th 6-field base, 17 x 19 grid of halfmove/fullmove counters (0..9999) on every base".into() }], nb)
}

pub fn run(tier: &str, seed: i64) -> Outcome {
    let (mut acc, mut reports, _) = run_local(tier, seed);
    // the same enumeration in the plain (release-semantics) flavour, as a worker process
    match std::env::var("VERIF_PLAIN_BIN") {
        Ok(bin) if std::path::Path::new(&bin).exists() => {
            let w = run_workers(&bin, vec![vec!["C17".into(), tier.into(), seed.to_string(), "--worker".into()]], 1);
            reports.push(SpaceReport { name: "base FENs (plain flavour, worker process)".into(), states: w.states, exhaustive: true, note: "same enumeration with wrapping arithmetic and no debug assertions".into() });
            acc.merge(w);
        }
        _ => acc.errors.push("VERIF_PLAIN_BIN not set or missing: the release-semantics flavour was not run".into()),
    }
    let mut out = Outcome::new(acc, reports, "base strings = model-rendered FENs (4/5/6 fields, engine-style and FIDE-style ep) of fixed-stride states; for each: every insertion, deletion and replacement over the alphabet {0-9 / space - w b KQRBNP kqrnp a c-i A x Z e-acute white-king-glyph} at every position of fields 1-4, every truncation, and all 2-replacements on digit/slash positions of the board field; each string classified by the model's reader (well-formed sane / insane / debatable / malformed) and fed to Game::new in the checked and in the plain build, a slice also through `position fen` + `show` + `isready`");
    out.traces_validated = out.acc.transitions;
    out.assumptions = vec![
        "well-formed text of positions outside the property's domain (two kings of a colour, pawns on the back ranks, rights without rook) carries no demand".into(),
        "debatable texts (consecutive digits, castling letters repeated/out of order, ep rank not matching the side, >6 fields, non-numeric counters) may be refused or accepted, but if accepted must be the position they spell and must not crash".into(),
    ];
    out
}

pub fn replay(j: &J) -> Result<Acc, String> {
    let text = j.get("text").and_then(|x| x.as_str()).ok_or("text")?;
    let fl = j.get("flavour").and_then(|x| x.as_str()).unwrap_or("checked");
    let mut acc = Acc::new();
    if fl != flavour() {
        if let Ok(bin) = std::env::var("VERIF_PLAIN_BIN") {
            let tmp = format!("{}/replays/.c17-replay-{}.json", crate::report::verif_dir(), std::process::id());
            std::fs::write(&tmp, json::obj(vec![("property", json::s("C17")), ("replay", j.clone())]).to_string()).map_err(|e| e.to_string())?;
            let w = run_workers(&bin, vec![vec!["replay".into(), tmp.clone(), "--worker".into()]], 1);
            let _ = std::fs::remove_file(&tmp);
            return Ok(w);
        }
        return Err("replay needs the plain flavour (VERIF_PLAIN_BIN)".into());
    }
    check_string(text, &mut acc);
    check_string_uci(text, &mut acc);
    Ok(acc)
}
