//! `println!` / `print!` shadows: every line the engine's sources print goes
//! to the harness transcript (thread-local or scheduler-global) instead of fd 1.
//! Must be declared (with #[macro_use]) textually before the #[path] modules.

macro_rules! println {
    () => { $crate::verif_hooks::emit(false, String::new()) };
    ($($arg:tt)*) => { $crate::verif_hooks::emit(false, format!($($arg)*)) };
}
macro_rules! print {
    ($($arg:tt)*) => { $crate::verif_hooks::emit(true, format!($($arg)*)) };
}
/// real stdout for the harness's own messages
macro_rules! out {
    ($($arg:tt)*) => {{ use std::io::Write; let mut o = std::io::stdout().lock(); let _ = writeln!(o, $($arg)*); }};
}
