//! Closed families of positions ("universes", DESIGN.md section 4), enumerated
//! completely and without symmetry reduction. Every member is produced as a
//! model position (`refchess::Pos`), normalised to the engine's en-passant
//! convention, and filtered by `sane()`.
#![allow(dead_code)]

use crate::refchess::*;

#[derive(Clone, Debug)]
pub enum Universe {
    /// K + k
    U2,
    /// K + k + one piece of each of the 10 kinds on every square
    U3,
    /// K + k + piece code a + piece code b; `files`: None = everywhere, Some((lo,hi)) = both extra pieces confined to files lo..=hi
    U4 { a: u8, b: u8, files: Option<(i8, i8)> },
    /// castling family: kings on e1/e8, any subset of the home rooks, every consistent rights subset, plus `extras` extra pieces
    UC { extras: u8 },
    /// en-passant family: capturer pawn + double-pushed pawn beside it with ep set, both kings anywhere, plus extra pieces.
    /// `pairs`: None = every file pair; Some(list of capturer files) restricts the capturer's file.
    /// `extra_codes`: which piece codes may be the extra piece (relative to White-to-move orientation; mirrored for Black)
    UE { extras: u8, capturer_files: Option<Vec<i8>>, slider_only: bool },
    /// castling with the enemy king anywhere: castler's king on e1 with K-side / Q-side / both rooks and rights, the
    /// enemy king on every square, plus `extras` (0/1) extra pieces; both colours (mirror), both sides to move
    UCK { extras: u8 },
    /// en-passant aliasing family: capturer pawn + double-pushed pawn beside it (ep set) + one more pawn of either
    /// colour anywhere on the capturer's file or the victim's file; kings on a few fixed safe squares; both colours
    UEA,
    /// en passant x every kind of next move: a capturer/victim pawn pair with the en-passant flag set, and for the side
    /// to move one of: a pawn on its 7th rank (each file) with nothing / an enemy rook / an enemy knight on each adjacent
    /// last-rank square (promotion, capture-promotion); king on e1 with a/h/both rooks and rights (castling); a pawn on its
    /// 2nd rank beside an enemy pawn on the 4th (a new double step creating a new en-passant file). Kings on fixed safe
    /// squares; both colours. The successor of EVERY move kind must have dropped (or replaced) the en-passant file.
    UEX,
    /// zugzwang family (5 men): the defending king on a corner square or next to it on the edge (12 squares), the attacking
    /// king at distance exactly 2, two attacking pieces (kinds `a`, `b`) and one defending piece (kind `d`) on every
    /// square; the attacker to move; both colours. Contains the mates in two whose key is a quiet waiting move after
    /// which the defender must move a piece of his own.
    UZ { a: u8, b: u8, d: u8 },
    /// two promoting pawns, one target: pawns of the side to move on its 7th rank two files apart, an enemy piece (r, n, b,
    /// q) on the last-rank square between them, the mover's king on every square, one enemy slider (r, b, q) on every
    /// square (pins one pawn, or gives check), the enemy king on two far squares; both colours. The two captures onto
    /// the same square can differ in legality - per-destination shortcuts in the legality filter show here.
    UPP,
    /// under-promotion family: a pawn on its 7th rank (each file) with the promotion square free, one enemy rook or queen on
    /// every square, both kings on three squares each, both sides to move, both colours. What the new piece can capture in
    /// the capture-only extension depends on its kind (a rook may take a rook there, a queen may not), so rook and bishop
    /// promotions are sometimes strictly best by an ordinary margin.
    UPQ,
    /// knight-fork promotions: a pawn on its 7th rank (each file), the enemy king and an enemy queen or rook on two of
    /// the squares a knight on the promotion square attacks, the own king on six spread squares, the promoting side to
    /// move; both colours. The knight promotion is (often) the best move and the line goes on with the new knight or with
    /// a king move that only a knight's check explains - what a line looks like after an under-promotion.
    UNF,
    /// castling x en passant product: kings on e1/e8, every (rook subset, rights subset) of UC, a capturer/victim pawn pair
    /// on every file pair, with the en-passant flag set and not set, both colours: all (rights, ep) state bytes on one board
    UCE,
    /// pin family: a king, an own piece of every kind at every distance in each of the 8 directions from it, an enemy
    /// slider of every kind further along the same ray (pinning or not, depending on its kind), the enemy king on two
    /// squares off the ray; both sides to move, both colours
    UPIN,
    /// double-attack family: a king and two enemy pieces (every kind pair, every placement) that BOTH attack it, the
    /// enemy king on two far squares; the attacked side to move; both colours
    UDBL,
    /// promotion family: a pawn on its 7th rank on each file with 0..=2 capturable enemy pieces (r,n,q) on the adjacent 8th-rank squares and optionally a blocker in front, kings on a fixed pair of safe squares sets
    UP,
}

impl Universe {
    pub fn name(&self) -> String {
        match self {
            Universe::U2 => "U2".into(),
            Universe::U3 => "U3".into(),
            Universe::U4 { a, b, files } => format!("U4[{}{}]{}", piece_letter(*a), piece_letter(*b), match files { Some((l, h)) => format!("files{}-{}", (b'a' + *l as u8) as char, (b'a' + *h as u8) as char), None => String::new() }),
            Universe::UC { extras } => format!("UC+{}", extras),
            Universe::UE { extras, capturer_files, slider_only } => format!("UE+{}{}{}", extras, if *slider_only { "sliders" } else { "" }, match capturer_files { Some(v) => format!("files{:?}", v), None => String::new() }),
            Universe::UP => "UP".into(),
            Universe::UCK { extras } => format!("UCK+{}", extras),
            Universe::UEA => "UEA".into(),
            Universe::UCE => "UCE".into(),
            Universe::UEX => "UEX".into(),
            Universe::UPP => "UPP".into(),
            Universe::UPQ => "UPQ".into(),
            Universe::UNF => "UNF".into(),
            Universe::UZ { a, b, d } => format!("UZ[{}{}|{}]", piece_letter(code(*a, true)), piece_letter(code(*b, true)), piece_letter(code(*d, false))),
            Universe::UPIN => "UPIN".into(),
            Universe::UDBL => "UDBL".into(),
        }
    }

    /// number of independent work units (for sharding over threads)
    pub fn units(&self) -> usize {
        match self {
            Universe::U2 | Universe::U3 | Universe::U4 { .. } | Universe::UE { .. } | Universe::UCK { .. } | Universe::UPIN | Universe::UDBL => 64,
            Universe::UEA | Universe::UEX | Universe::UPQ | Universe::UNF => 8,
            Universe::UZ { .. } => 12,
            Universe::UPP => 64,
            Universe::UC { .. } | Universe::UCE => 81,
            Universe::UP => 8,
        }
    }

    pub fn for_unit(&self, unit: usize, f: &mut dyn FnMut(Pos)) {
        match self {
            Universe::U2 => {
                king_pairs(unit as u8, &mut |p| both_sides(&p, f));
            }
            Universe::U3 => {
                king_pairs(unit as u8, &mut |p| {
                    for c in 1..=12u8 {
                        if kind_of(c) == K {
                            continue;
                        }
                        place_one(&p, c, None, &mut |q, _| both_sides(&q, f));
                    }
                });
            }
            Universe::U4 { a, b, files } => {
                king_pairs(unit as u8, &mut |p| {
                    place_one(&p, *a, *files, &mut |q, sa| {
                        place_one(&q, *b, *files, &mut |r, sb| {
                            // when both extra pieces are the same code, avoid generating each placement twice
                            if a == b && sb < sa {
                                return;
                            }
                            both_sides_with_ep(&r, f);
                        });
                    });
                });
            }
            Universe::UC { extras } => uc_unit(unit, *extras, f),
            Universe::UE { extras, capturer_files, slider_only } => ue_unit(unit as u8, *extras, capturer_files.as_deref(), *slider_only, f),
            Universe::UP => up_unit(unit as i8, f),
            Universe::UCK { extras } => uck_unit(unit as u8, *extras, f),
            Universe::UEA => uea_unit(unit as i8, f),
            Universe::UEX => uex_unit(unit as i8, f),
            Universe::UPP => upp_unit(unit as u8, f),
            Universe::UPQ => upq_unit(unit as i8, f),
            Universe::UNF => unf_unit(unit as i8, f),
            Universe::UZ { a, b, d } => uz_unit(unit, *a, *b, *d, f),
            Universe::UPIN => upin_unit(unit as u8, f),
            Universe::UDBL => udbl_unit(unit as u8, f),
            Universe::UCE => {
                let base = uc_base(unit);
                for cf in 0..8i8 {
                    for df in [-1i8, 1] {
                        let vf = cf + df;
                        if !(0..8).contains(&vf) {
                            continue;
                        }
                        let mut p = base;
                        p.b[sq(4, cf) as usize] = code(P, true);
                        p.b[sq(4, vf) as usize] = code(P, false);
                        p.white = true;
                        for with_ep in [true, false] {
                            let mut q = p;
                            q.ep = if with_ep { Some(sq(5, vf)) } else { None };
                            if q.sane() {
                                f(q);
                            }
                            let m = q.mirror();
                            if m.sane() {
                                f(m);
                            }
                        }
                    }
                }
            }
        }
    }
}

pub fn adjacent(a: u8, b: u8) -> bool {
    (rank_of(a) - rank_of(b)).abs() <= 1 && (file_of(a) - file_of(b)).abs() <= 1
}

/// all placements of the black king for a given white king square
fn king_pairs(wk: u8, f: &mut dyn FnMut(Pos)) {
    for bk in 0..64u8 {
        if adjacent(wk, bk) {
            continue;
        }
        let mut p = Pos::empty();
        p.b[wk as usize] = WK;
        p.b[bk as usize] = BK;
        f(p);
    }
}

/// place piece code `c` on every free square (pawns not on ranks 1/8), optionally confined to files
fn place_one(p: &Pos, c: u8, files: Option<(i8, i8)>, f: &mut dyn FnMut(Pos, u8)) {
    for s in 0..64u8 {
        if p.b[s as usize] != 0 {
            continue;
        }
        if kind_of(c) == P && (rank_of(s) == 0 || rank_of(s) == 7) {
            continue;
        }
        if let Some((lo, hi)) = files {
            if file_of(s) < lo || file_of(s) > hi {
                continue;
            }
        }
        let mut q = *p;
        q.b[s as usize] = c;
        f(q, s);
    }
}

fn both_sides(p: &Pos, f: &mut dyn FnMut(Pos)) {
    for white in [true, false] {
        let mut q = *p;
        q.white = white;
        if q.sane() {
            f(q);
        }
    }
}

/// both sides to move, and in addition every en-passant variant that is sane
/// and visible under the engine's convention (a capturer stands beside the pawn)
fn both_sides_with_ep(p: &Pos, f: &mut dyn FnMut(Pos)) {
    for white in [true, false] {
        let mut q = *p;
        q.white = white;
        if !q.sane() {
            continue;
        }
        f(q);
        let (pawn_rank, target_rank) = if white { (4, 5) } else { (3, 2) };
        for file in 0..8i8 {
            if q.b[sq(pawn_rank, file) as usize] == code(P, !white) {
                let mut e = q;
                e.ep = Some(sq(target_rank, file));
                if e.sane() && e.engine_ep_file() != 8 {
                    f(e);
                }
            }
        }
    }
}

/// the 81 (rook subset, rights subset-of-it) combinations
fn uc_combo(unit: usize) -> (u8, u8) {
    // ternary digits per corner: 0 = no rook, 1 = rook without right, 2 = rook with right
    let mut rooks = 0u8;
    let mut rights = 0u8;
    let mut u = unit;
    for bit in 0..4 {
        let d = u % 3;
        u /= 3;
        if d >= 1 {
            rooks |= 1 << bit;
        }
        if d == 2 {
            rights |= 1 << bit;
        }
    }
    (rooks, rights)
}

fn uc_base(unit: usize) -> Pos {
    let (rooks, rights) = uc_combo(unit);
    let mut p = Pos::empty();
    p.b[4] = WK;
    p.b[60] = BK;
    // bit order = rights order: K (h1), Q (a1), k (h8), q (a8)
    if rooks & 1 != 0 {
        p.b[7] = code(R, true);
    }
    if rooks & 2 != 0 {
        p.b[0] = code(R, true);
    }
    if rooks & 4 != 0 {
        p.b[63] = code(R, false);
    }
    if rooks & 8 != 0 {
        p.b[56] = code(R, false);
    }
    p.rights = rights;
    p
}

fn uc_unit(unit: usize, extras: u8, f: &mut dyn FnMut(Pos)) {
    let base = uc_base(unit);
    match extras {
        0 => both_sides(&base, f),
        1 => {
            for c in 1..=12u8 {
                if kind_of(c) == K {
                    continue;
                }
                place_one(&base, c, None, &mut |q, _| both_sides(&q, f));
            }
        }
        _ => {
            for c1 in 1..=12u8 {
                if kind_of(c1) == K {
                    continue;
                }
                place_one(&base, c1, None, &mut |q, s1| {
                    for c2 in c1..=12u8 {
                        if kind_of(c2) == K {
                            continue;
                        }
                        place_one(&q, c2, None, &mut |r, s2| {
                            if c1 == c2 && s2 < s1 {
                                return;
                            }
                            both_sides(&r, f);
                        });
                    }
                });
            }
        }
    }
}

/// UE unit = square of the mover's king (the side that may capture en passant); both colours generated by mirroring.
fn ue_unit(mover_king: u8, extras: u8, capturer_files: Option<&[i8]>, slider_only: bool, f: &mut dyn FnMut(Pos)) {
    // Build with White to move (white capturer on rank index 4, black pawn beside it, ep target on rank index 5),
    // then also emit the colour mirror (Black to move).
    let mut emit = |p: Pos| {
        if p.sane() && p.engine_ep_file() != 8 {
            f(p);
            let m = p.mirror();
            if m.sane() && m.engine_ep_file() != 8 {
                f(m);
            }
        }
    };
    for cf in 0..8i8 {
        if let Some(list) = capturer_files {
            if !list.contains(&cf) {
                continue;
            }
        }
        for df in [-1i8, 1] {
            let vf = cf + df;
            if !(0..8).contains(&vf) {
                continue;
            }
            let cap = sq(4, cf);
            let vic = sq(4, vf);
            if mover_king == cap || mover_king == vic || mover_king == sq(5, vf) || mover_king == sq(6, vf) {
                continue;
            }
            for bk in 0..64u8 {
                if adjacent(mover_king, bk) || bk == cap || bk == vic || bk == sq(5, vf) || bk == sq(6, vf) {
                    continue;
                }
                let mut p = Pos::empty();
                p.b[mover_king as usize] = WK;
                p.b[bk as usize] = BK;
                p.b[cap as usize] = code(P, true);
                p.b[vic as usize] = code(P, false);
                p.white = true;
                p.ep = Some(sq(5, vf));
                if extras == 0 {
                    emit(p);
                } else {
                    for c in 1..=12u8 {
                        if kind_of(c) == K {
                            continue;
                        }
                        if slider_only && !(is_black(c) && (kind_of(c) == Q || kind_of(c) == R || kind_of(c) == B)) {
                            continue;
                        }
                        for s in 0..64u8 {
                            if p.b[s as usize] != 0 || s == sq(5, vf) || s == sq(6, vf) {
                                continue;
                            }
                            if kind_of(c) == P && (rank_of(s) == 0 || rank_of(s) == 7) {
                                continue;
                            }
                            let mut q = p;
                            q.b[s as usize] = c;
                            emit(q);
                        }
                    }
                }
            }
        }
    }
}

/// promotion family, unit = file of the pawn. White pawn on the 7th rank; the two
/// diagonal 8th-rank squares each empty / r / n / q; the square in front empty or
/// blocked by a black knight; kings on several safe square pairs; plus colour mirror.
fn up_unit(file: i8, f: &mut dyn FnMut(Pos)) {
    let opts = [0u8, code(R, false), code(N, false), code(Q, false)];
    let king_pairs: [(u8, u8); 4] = [(sq(0, 4), sq(4, 7)), (sq(2, 0), sq(3, 7)), (sq(0, 7), sq(4, 0)), (sq(5, 4), sq(2, 4))];
    for (wk, bk) in king_pairs {
        for l in opts {
            for r in opts {
                for front in [0u8, code(N, false), code(R, false)] {
                    let mut p = Pos::empty();
                    p.b[wk as usize] = WK;
                    p.b[bk as usize] = BK;
                    let ps = sq(6, file);
                    if p.b[ps as usize] != 0 {
                        continue;
                    }
                    p.b[ps as usize] = code(P, true);
                    let mut ok = true;
                    for (df, c) in [(-1i8, l), (1i8, r)] {
                        let ff = file + df;
                        if c != 0 {
                            if !(0..8).contains(&ff) || p.b[sq(7, ff) as usize] != 0 {
                                ok = false;
                                break;
                            }
                            p.b[sq(7, ff) as usize] = c;
                        }
                    }
                    if !ok {
                        continue;
                    }
                    if front != 0 {
                        if p.b[sq(7, file) as usize] != 0 {
                            continue;
                        }
                        p.b[sq(7, file) as usize] = front;
                    }
                    p.white = true;
                    if p.sane() {
                        f(p);
                    }
                    let m = p.mirror();
                    if m.sane() {
                        f(m);
                    }
                }
            }
        }
    }
}

/// unit = enemy king square
fn uck_unit(ek: u8, extras: u8, f: &mut dyn FnMut(Pos)) {
    let mut emit = |p: Pos| {
        for white in [true, false] {
            let mut q = p;
            q.white = white;
            if q.sane() {
                f(q);
            }
            let m = q.mirror();
            if m.sane() {
                f(m);
            }
        }
    };
    for (rooks, rights) in [(vec![7u8], RIGHT_WK), (vec![0u8], RIGHT_WQ), (vec![0u8, 7u8], RIGHT_WK | RIGHT_WQ)] {
        let mut p = Pos::empty();
        p.b[4] = WK;
        let mut ok = ek != 4 && !adjacent(4, ek);
        for r in &rooks {
            if *r == ek {
                ok = false;
            }
            p.b[*r as usize] = code(R, true);
        }
        if !ok {
            continue;
        }
        p.b[ek as usize] = BK;
        p.rights = rights;
        if extras == 0 {
            emit(p);
        } else {
            for c in 1..=12u8 {
                if kind_of(c) == K {
                    continue;
                }
                place_one(&p, c, None, &mut |q, _| emit(q));
            }
        }
    }
}

/// unit = capturer file
fn uea_unit(cf: i8, f: &mut dyn FnMut(Pos)) {
    let king_sets: [(u8, u8); 3] = [(sq(0, 4), sq(7, 4)), (sq(0, 0), sq(7, 7)), (sq(2, 7), sq(5, 0))];
    for df in [-1i8, 1] {
        let vf = cf + df;
        if !(0..8).contains(&vf) {
            continue;
        }
        for (wk, bk) in king_sets {
            let mut p = Pos::empty();
            let (cap, vic) = (sq(4, cf), sq(4, vf));
            if [cap, vic, sq(5, vf), sq(6, vf)].contains(&wk) || [cap, vic, sq(5, vf), sq(6, vf)].contains(&bk) {
                continue;
            }
            p.b[wk as usize] = WK;
            p.b[bk as usize] = BK;
            p.b[cap as usize] = code(P, true);
            p.b[vic as usize] = code(P, false);
            p.white = true;
            p.ep = Some(sq(5, vf));
            for file in [cf, vf] {
                for rank in 1..7i8 {
                    for c in [code(P, true), code(P, false)] {
                        let s = sq(rank, file);
                        if p.b[s as usize] != 0 || s == sq(5, vf) || s == sq(6, vf) {
                            continue;
                        }
                        let mut q = p;
                        q.b[s as usize] = c;
                        if q.sane() && q.engine_ep_file() != 8 {
                            f(q);
                            let m = q.mirror();
                            if m.sane() && m.engine_ep_file() != 8 {
                                f(m);
                            }
                        }
                    }
                }
            }
        }
    }
}

fn uex_unit(cf: i8, f: &mut dyn FnMut(Pos)) {
    let mut emit = |q: Pos| {
        if q.sane() && q.engine_ep_file() != 8 {
            f(q);
            let m = q.mirror();
            if m.sane() && m.engine_ep_file() != 8 {
                f(m);
            }
        }
    };
    let king_sets: [(u8, u8); 3] = [(sq(0, 4), sq(7, 4)), (sq(2, 0), sq(5, 7)), (sq(2, 7), sq(5, 0))];
    for df in [-1i8, 1] {
        let vf = cf + df;
        if !(0..8).contains(&vf) {
            continue;
        }
        let (cap, vic) = (sq(4, cf), sq(4, vf));
        let reserved = [cap, vic, sq(5, vf), sq(6, vf)];
        let base = |wk: u8, bk: u8| -> Option<Pos> {
            if reserved.contains(&wk) || reserved.contains(&bk) {
                return None;
            }
            let mut p = Pos::empty();
            p.b[wk as usize] = WK;
            p.b[bk as usize] = BK;
            p.b[cap as usize] = code(P, true);
            p.b[vic as usize] = code(P, false);
            p.white = true;
            p.ep = Some(sq(5, vf));
            Some(p)
        };
        for (wk, bk) in king_sets {
            let Some(p) = base(wk, bk) else { continue };
            // (a) promotion and capture-promotion as the next move
            for pf in 0..8i8 {
                let ps = sq(6, pf);
                if p.b[ps as usize] != 0 || reserved.contains(&ps) || p.b[sq(7, pf) as usize] != 0 {
                    continue;
                }
                let mut q = p;
                q.b[ps as usize] = code(P, true);
                emit(q);
                for side in [-1i8, 1] {
                    let tf = pf + side;
                    if !(0..8).contains(&tf) || q.b[sq(7, tf) as usize] != 0 {
                        continue;
                    }
                    for enemy in [R, N] {
                        let mut r = q;
                        r.b[sq(7, tf) as usize] = code(enemy, false);
                        emit(r);
                    }
                }
            }
            // (c) a new double step beside an enemy pawn (the en-passant file is replaced, not just dropped)
            for nf in 0..8i8 {
                for side in [-1i8, 1] {
                    let ef = nf + side;
                    if !(0..8).contains(&ef) {
                        continue;
                    }
                    let (ns, es) = (sq(1, nf), sq(3, ef));
                    if p.b[ns as usize] != 0 || p.b[es as usize] != 0 || p.b[sq(2, nf) as usize] != 0 || p.b[sq(3, nf) as usize] != 0 || reserved.contains(&ns) || reserved.contains(&es) {
                        continue;
                    }
                    let mut q = p;
                    q.b[ns as usize] = code(P, true);
                    q.b[es as usize] = code(P, false);
                    emit(q);
                }
            }
        }
        // (b) castling as the next move: king e1, rooks a1/h1, black king e8 or a far square
        for bk in [sq(7, 4), sq(7, 0), sq(5, 7)] {
            let Some(p) = base(sq(0, 4), bk) else { continue };
            for (rooks, rights) in [(vec![sq(0, 7)], RIGHT_WK), (vec![sq(0, 0)], RIGHT_WQ), (vec![sq(0, 0), sq(0, 7)], RIGHT_WK | RIGHT_WQ)] {
                let mut q = p;
                for r in &rooks {
                    q.b[*r as usize] = code(R, true);
                }
                q.rights = rights;
                emit(q);
            }
        }
    }
}

fn uz_unit(unit: usize, a: u8, b: u8, d: u8, f: &mut dyn FnMut(Pos)) {
    let zone: [u8; 12] = [sq(7, 0), sq(7, 1), sq(6, 0), sq(7, 7), sq(7, 6), sq(6, 7), sq(0, 0), sq(0, 1), sq(1, 0), sq(0, 7), sq(0, 6), sq(1, 7)];
    let dk = zone[unit % 12];
    for ak in 0..64u8 {
        let dist = (rank_of(ak) - rank_of(dk)).abs().max((file_of(ak) - file_of(dk)).abs());
        if dist != 2 {
            continue;
        }
        for sa in 0..64u8 {
            if sa == dk || sa == ak {
                continue;
            }
            for sb in 0..64u8 {
                if sb == dk || sb == ak || sb == sa || (a == b && sb < sa) {
                    continue;
                }
                for sd in 0..64u8 {
                    if sd == dk || sd == ak || sd == sa || sd == sb {
                        continue;
                    }
                    let mut p = Pos::empty();
                    p.b[dk as usize] = BK;
                    p.b[ak as usize] = WK;
                    p.b[sa as usize] = code(a, true);
                    p.b[sb as usize] = code(b, true);
                    p.b[sd as usize] = code(d, false);
                    p.white = true;
                    if p.sane() {
                        f(p);
                        let m = p.mirror();
                        if m.sane() {
                            f(m);
                        }
                    }
                }
            }
        }
    }
}

fn upp_unit(wk: u8, f: &mut dyn FnMut(Pos)) {
    for left in 0..6i8 {
        let (p1, p2, target) = (sq(6, left), sq(6, left + 2), sq(7, left + 1));
        if [p1, p2, target].contains(&wk) {
            continue;
        }
        for victim in [R, N, B, Q] {
            for slider in [R, B, Q] {
                for ss in 0..64u8 {
                    if [p1, p2, target, wk].contains(&ss) {
                        continue;
                    }
                    for bk in far_kings(&|s| s == wk || s == ss || s == p1 || s == p2 || s == target || adjacent(s, wk), 2) {
                        let mut p = Pos::empty();
                        p.b[wk as usize] = WK;
                        p.b[bk as usize] = BK;
                        p.b[p1 as usize] = code(P, true);
                        p.b[p2 as usize] = code(P, true);
                        p.b[target as usize] = code(victim, false);
                        p.b[ss as usize] = code(slider, false);
                        p.white = true;
                        if p.sane() {
                            f(p);
                            let m = p.mirror();
                            if m.sane() {
                                f(m);
                            }
                        }
                    }
                }
            }
        }
    }
}

fn unf_unit(file: i8, f: &mut dyn FnMut(Pos)) {
    let pawn = sq(6, file);
    let promo = sq(7, file);
    let mut targets: Vec<u8> = vec![];
    for (dr, df) in [(-1i8, -2i8), (-1, 2), (-2, -1), (-2, 1)] {
        let (r, c) = (7 + dr, file + df);
        if (0..8).contains(&r) && (0..8).contains(&c) {
            targets.push(sq(r, c));
        }
    }
    for &ks in &targets {
        for &es in &targets {
            if es == ks {
                continue;
            }
            for enemy in [Q, R] {
                for wk in [sq(0, 0), sq(0, 7), sq(2, 3), sq(3, 6), sq(4, 1), sq(0, 4)] {
                    if [pawn, promo, ks, es].contains(&wk) || adjacent(wk, ks) {
                        continue;
                    }
                    let mut p = Pos::empty();
                    p.b[wk as usize] = WK;
                    p.b[ks as usize] = BK;
                    p.b[pawn as usize] = code(P, true);
                    p.b[es as usize] = code(enemy, false);
                    p.white = true;
                    if p.sane() {
                        f(p);
                        let m = p.mirror();
                        if m.sane() {
                            f(m);
                        }
                    }
                }
            }
        }
    }
}

fn upq_unit(file: i8, f: &mut dyn FnMut(Pos)) {
    let pawn = sq(6, file);
    let promo = sq(7, file);
    for enemy in [R, Q] {
        for es in 0..64u8 {
            if es == pawn || es == promo {
                continue;
            }
            for wk in [sq(0, 1), sq(2, 6), sq(5, 3)] {
                for bk in [sq(7, 6), sq(4, 0), sq(1, 4)] {
                    if [pawn, promo, es].contains(&wk) || [pawn, promo, es, wk].contains(&bk) || adjacent(wk, bk) {
                        continue;
                    }
                    let mut p = Pos::empty();
                    p.b[wk as usize] = WK;
                    p.b[bk as usize] = BK;
                    p.b[pawn as usize] = code(P, true);
                    p.b[es as usize] = code(enemy, false);
                    for white in [true, false] {
                        p.white = white;
                        if p.sane() {
                            f(p);
                            let m = p.mirror();
                            if m.sane() {
                                f(m);
                            }
                        }
                    }
                }
            }
        }
    }
}

fn far_kings(avoid: &dyn Fn(u8) -> bool, n: usize) -> Vec<u8> {
    [56u8, 63, 0, 7, 59, 4, 31, 24].into_iter().filter(|s| !avoid(*s)).take(n).collect()
}

fn upin_unit(k: u8, f: &mut dyn FnMut(Pos)) {
    let dirs: [(i8, i8); 8] = [(1, 0), (-1, 0), (0, 1), (0, -1), (1, 1), (1, -1), (-1, 1), (-1, -1)];
    let (kr, kf) = (rank_of(k), file_of(k));
    for (dr, df) in dirs {
        for i in 1..7i8 {
            let (r1, f1) = (kr + dr * i, kf + df * i);
            if !(0..8).contains(&r1) || !(0..8).contains(&f1) {
                break;
            }
            for j in (i + 1)..8i8 {
                let (r2, f2) = (kr + dr * j, kf + df * j);
                if !(0..8).contains(&r2) || !(0..8).contains(&f2) {
                    break;
                }
                let (s1, s2) = (sq(r1, f1), sq(r2, f2));
                for own in [Q, R, B, N, P] {
                    if own == P && (r1 == 0 || r1 == 7) {
                        continue;
                    }
                    for enemy in [Q, R, B] {
                        let on_ray = |s: u8| {
                            let (r, ff) = (rank_of(s) - kr, file_of(s) - kf);
                            (r == 0 && dr == 0 && ff.signum() == df) || (ff == 0 && df == 0 && r.signum() == dr) || (r.abs() == ff.abs() && r.signum() == dr && ff.signum() == df && dr != 0 && df != 0)
                        };
                        for bk in far_kings(&|s| s == k || s == s1 || s == s2 || adjacent(s, k) || on_ray(s), 2) {
                            let mut p = Pos::empty();
                            p.b[k as usize] = WK;
                            p.b[s1 as usize] = code(own, true);
                            p.b[s2 as usize] = code(enemy, false);
                            p.b[bk as usize] = BK;
                            for white in [true, false] {
                                p.white = white;
                                if p.sane() {
                                    f(p);
                                }
                                let m = p.mirror();
                                if m.sane() {
                                    f(m);
                                }
                            }
                        }
                    }
                }
            }
        }
    }
}

fn udbl_unit(k: u8, f: &mut dyn FnMut(Pos)) {
    for a in [Q, R, B, N, P] {
        for b in [Q, R, B, N, P] {
            if b < a {
                continue;
            }
            for s1 in 0..64u8 {
                if s1 == k || (a == P && (rank_of(s1) == 0 || rank_of(s1) == 7)) {
                    continue;
                }
                let mut p1 = Pos::empty();
                p1.b[k as usize] = WK;
                p1.b[s1 as usize] = code(a, false);
                if !p1.attacked_by(k, false) {
                    continue;
                }
                for s2 in 0..64u8 {
                    if s2 == k || s2 == s1 || (a == b && s2 < s1) || (b == P && (rank_of(s2) == 0 || rank_of(s2) == 7)) {
                        continue;
                    }
                    let mut p2 = Pos::empty();
                    p2.b[k as usize] = WK;
                    p2.b[s2 as usize] = code(b, false);
                    if !p2.attacked_by(k, false) {
                        continue;
                    }
                    for bk in far_kings(&|s| s == k || s == s1 || s == s2 || adjacent(s, k), 2) {
                        let mut p = p1;
                        p.b[s2 as usize] = code(b, false);
                        p.b[bk as usize] = BK;
                        p.white = true;
                        // both still attack with both on the board (one may shield the other)
                        if p.sane() {
                            f(p);
                        }
                        let m = p.mirror();
                        if m.sane() {
                            f(m);
                        }
                    }
                }
            }
        }
    }
}

pub fn count(u: &Universe) -> u64 {
    let mut n = 0u64;
    for unit in 0..u.units() {
        u.for_unit(unit, &mut |_| n += 1);
    }
    n
}
