//! Minimal JSON value, writer and parser (no external crates available offline
//! beyond the repository's own three dependencies).
#![allow(dead_code)]
use std::collections::BTreeMap;

#[derive(Clone, Debug, PartialEq)]
pub enum J {
    Null,
    Bool(bool),
    Int(i128),
    Num(f64),
    Str(String),
    Arr(Vec<J>),
    Obj(Vec<(String, J)>),
}

pub fn s(x: impl Into<String>) -> J {
    J::Str(x.into())
}
pub fn i(x: impl TryInto<i128>) -> J {
    J::Int(x.try_into().ok().unwrap_or(0))
}
pub fn obj(v: Vec<(&str, J)>) -> J {
    J::Obj(v.into_iter().map(|(k, v)| (k.to_string(), v)).collect())
}
pub fn arr(v: Vec<J>) -> J {
    J::Arr(v)
}
pub fn strs<T: AsRef<str>>(v: &[T]) -> J {
    J::Arr(v.iter().map(|x| J::Str(x.as_ref().to_string())).collect())
}

fn esc(st: &str, out: &mut String) {
    out.push('"');
    for c in st.chars() {
        match c {
            '"' => out.push_str("\\\""),
            '\\' => out.push_str("\\\\"),
            '\n' => out.push_str("\\n"),
            '\r' => out.push_str("\\r"),
            '\t' => out.push_str("\\t"),
            c if (c as u32) < 0x20 => out.push_str(&format!("\\u{:04x}", c as u32)),
            c => out.push(c),
        }
    }
    out.push('"');
}

impl J {
    pub fn write(&self, out: &mut String, indent: usize) {
        let pad = |n: usize| " ".repeat(n);
        match self {
            J::Null => out.push_str("null"),
            J::Bool(b) => out.push_str(if *b { "true" } else { "false" }),
            J::Int(n) => out.push_str(&n.to_string()),
            J::Num(n) => {
                if n.is_finite() {
                    out.push_str(&format!("{:.3}", n))
                } else {
                    out.push_str("0")
                }
            }
            J::Str(st) => esc(st, out),
            J::Arr(v) => {
                if v.is_empty() {
                    out.push_str("[]");
                    return;
                }
                out.push_str("[\n");
                for (k, x) in v.iter().enumerate() {
                    out.push_str(&pad(indent + 1));
                    x.write(out, indent + 1);
                    if k + 1 < v.len() {
                        out.push(',');
                    }
                    out.push('\n');
                }
                out.push_str(&pad(indent));
                out.push(']');
            }
            J::Obj(v) => {
                if v.is_empty() {
                    out.push_str("{}");
                    return;
                }
                out.push_str("{\n");
                for (k, (name, x)) in v.iter().enumerate() {
                    out.push_str(&pad(indent + 1));
                    esc(name, out);
                    out.push_str(": ");
                    x.write(out, indent + 1);
                    if k + 1 < v.len() {
                        out.push(',');
                    }
                    out.push('\n');
                }
                out.push_str(&pad(indent));
                out.push('}');
            }
        }
    }
    pub fn to_string(&self) -> String {
        let mut o = String::new();
        self.write(&mut o, 0);
        o
    }
    pub fn compact(&self) -> String {
        // single-line form (for worker -> parent pipes)
        let mut o = String::new();
        self.write_compact(&mut o);
        o
    }
    fn write_compact(&self, out: &mut String) {
        match self {
            J::Arr(v) => {
                out.push('[');
                for (k, x) in v.iter().enumerate() {
                    if k > 0 {
                        out.push(',');
                    }
                    x.write_compact(out);
                }
                out.push(']');
            }
            J::Obj(v) => {
                out.push('{');
                for (k, (name, x)) in v.iter().enumerate() {
                    if k > 0 {
                        out.push(',');
                    }
                    esc(name, out);
                    out.push(':');
                    x.write_compact(out);
                }
                out.push('}');
            }
            other => other.write(out, 0),
        }
    }
    pub fn get(&self, key: &str) -> Option<&J> {
        match self {
            J::Obj(v) => v.iter().find(|(k, _)| k == key).map(|(_, v)| v),
            _ => None,
        }
    }
    pub fn as_str(&self) -> Option<&str> {
        match self {
            J::Str(s) => Some(s),
            _ => None,
        }
    }
    pub fn as_i(&self) -> Option<i128> {
        match self {
            J::Int(n) => Some(*n),
            J::Num(n) => Some(*n as i128),
            _ => None,
        }
    }
    pub fn as_arr(&self) -> Option<&Vec<J>> {
        match self {
            J::Arr(v) => Some(v),
            _ => None,
        }
    }
    pub fn as_bool(&self) -> Option<bool> {
        match self {
            J::Bool(b) => Some(*b),
            _ => None,
        }
    }
}

pub fn parse(text: &str) -> Result<J, String> {
    let b: Vec<char> = text.chars().collect();
    let mut p = 0usize;
    let v = pv(&b, &mut p)?;
    ws(&b, &mut p);
    if p != b.len() {
        return Err(format!("trailing data at {}", p));
    }
    Ok(v)
}
fn ws(b: &[char], p: &mut usize) {
    while *p < b.len() && b[*p].is_whitespace() {
        *p += 1;
    }
}
fn pv(b: &[char], p: &mut usize) -> Result<J, String> {
    ws(b, p);
    if *p >= b.len() {
        return Err("eof".into());
    }
    match b[*p] {
        '{' => {
            *p += 1;
            let mut v = vec![];
            loop {
                ws(b, p);
                if *p < b.len() && b[*p] == '}' {
                    *p += 1;
                    break;
                }
                let k = match pv(b, p)? {
                    J::Str(s) => s,
                    _ => return Err("key".into()),
                };
                ws(b, p);
                if *p >= b.len() || b[*p] != ':' {
                    return Err("colon".into());
                }
                *p += 1;
                let x = pv(b, p)?;
                v.push((k, x));
                ws(b, p);
                if *p < b.len() && b[*p] == ',' {
                    *p += 1;
                }
            }
            Ok(J::Obj(v))
        }
        '[' => {
            *p += 1;
            let mut v = vec![];
            loop {
                ws(b, p);
                if *p < b.len() && b[*p] == ']' {
                    *p += 1;
                    break;
                }
                v.push(pv(b, p)?);
                ws(b, p);
                if *p < b.len() && b[*p] == ',' {
                    *p += 1;
                }
            }
            Ok(J::Arr(v))
        }
        '"' => {
            *p += 1;
            let mut st = String::new();
            while *p < b.len() && b[*p] != '"' {
                if b[*p] == '\\' {
                    *p += 1;
                    match b.get(*p) {
                        Some('n') => st.push('\n'),
                        Some('t') => st.push('\t'),
                        Some('r') => st.push('\r'),
                        Some('u') => {
                            let h: String = b[*p + 1..*p + 5].iter().collect();
                            st.push(char::from_u32(u32::from_str_radix(&h, 16).map_err(|e| e.to_string())?).unwrap_or('?'));
                            *p += 4;
                        }
                        Some(c) => st.push(*c),
                        None => return Err("escape".into()),
                    }
                } else {
                    st.push(b[*p]);
                }
                *p += 1;
            }
            *p += 1;
            Ok(J::Str(st))
        }
        't' => {
            *p += 4;
            Ok(J::Bool(true))
        }
        'f' => {
            *p += 5;
            Ok(J::Bool(false))
        }
        'n' => {
            *p += 4;
            Ok(J::Null)
        }
        _ => {
            let st = *p;
            while *p < b.len() && (b[*p].is_ascii_digit() || "+-.eE".contains(b[*p])) {
                *p += 1;
            }
            let t: String = b[st..*p].iter().collect();
            if let Ok(n) = t.parse::<i128>() {
                Ok(J::Int(n))
            } else {
                t.parse::<f64>().map(J::Num).map_err(|e| format!("number {:?}: {}", t, e))
            }
        }
    }
}

pub type Counts = BTreeMap<String, u64>;
pub fn counts_json(c: &Counts) -> J {
    J::Obj(c.iter().map(|(k, v)| (k.clone(), J::Int(*v as i128))).collect())
}
