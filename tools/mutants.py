#!/usr/bin/env python3
"""Detection demonstrations (DESIGN.md section 8): applies each small, compiling, property-breaking
change to /repo's working tree, runs the listed quick checks, reverts. Usage:
   tools/mutants.py [name ...]        # default: all
Never commits anything to /repo; refuses to run if /repo has uncommitted changes.
Results are appended to /verif/mutants/results.jsonl (one JSON object per mutant run)."""
import json, subprocess, sys, time, os

R = '/repo/src/'
M = []
def mut(name, file, old, new, checks, note=''):
    M.append(dict(name=name, file=R + file, old=old, new=new, checks=checks, note=note))

mut('M01-alignment-shortcut-or', 'chess/mod.rs',
    'if delta_col != 0 && delta_row != 0 && delta_col.abs() != delta_row.abs() {',
    'if (delta_col != 0 || delta_row != 0) && delta_col.abs() != delta_row.abs() {',
    ['C01'], 'verification skipped for pieces on the king\'s file/rank: pinned rooks/queens may leave the line')
mut('M02-pawn-attack-delta-wrong-direction', 'chess/mod.rs',
    """            Player::White => {
                if let Some(new_pos) = position.add((1, 1)) {""",
    """            Player::White => {
                if let Some(new_pos) = position.add((-1, 1)) {""",
    ['C01'], 'a white king/castling square looks for an attacking black pawn below-right instead of above-right')
mut('M03-long-castling-checks-b-file', 'chess/piece.rs',
    """                && !game.is_targeted(pos2, game.current_player)
                && !game.is_targeted(pos3, game.current_player)
            {
                push(Move::CastlingLong {""",
    """                && !game.is_targeted(pos2, game.current_player)
                && !game.is_targeted(pos1, game.current_player)
            {
                push(Move::CastlingLong {""",
    ['C01'], 'long castling allowed through an attacked d-file square, refused with attacked b-file square')
mut('M04-promotion-capture-keeps-right', 'chess/mod.rs',
    """                if captured_piece.is_some_and(|piece| {
                    piece.piece_type == PieceType::Rook && piece.owner == Player::Black
                }) {
                    match end {
                        Position::BLACK_QUEEN_ROOK => state.set_black_queen_castling_false(),
                        Position::BLACK_KING_ROOK => state.set_black_king_castling_false(),
                        _ => (),
                    }
                }
            }
            Move::EnPassant {""",
    """                if captured_piece.is_some_and(|piece| {
                    piece.piece_type == PieceType::Rook && piece.owner == Player::Black
                }) {
                    match end {
                        Position::BLACK_QUEEN_ROOK => state.set_black_queen_castling_false(),
                        _ => (),
                    }
                }
            }
            Move::EnPassant {""",
    ['C02', 'C01'], 'a promotion capturing the h8 rook leaves Black\'s king-side right')
mut('M05-ep-without-adjacent-pawn', 'chess/mod.rs',
    """                    if enemy_pawns_exist {
                        state.set_en_passant(start.col());
                    }""",
    """                    let _ = enemy_pawns_exist;
                    state.set_en_passant(start.col());""",
    ['C02', 'C04', 'C11'], 'en-passant file recorded after every double step')
mut('M06-pop-en-passant-wrong-owner', 'chess/mod.rs',
    """                self.set_position(
                    taken_pawn,
                    Some(Piece {
                        piece_type: PieceType::Pawn,
                        owner: owner.the_other(),
                    }),
                );""",
    """                self.set_position(
                    taken_pawn,
                    Some(Piece {
                        piece_type: PieceType::Pawn,
                        owner,
                    }),
                );""",
    ['C03'], 'taking back an en-passant capture restores the captured pawn with the wrong colour')
mut('M07-empty-key-zero', 'chess/mod.rs',
    """            .map(|piece| piece.hash(position))
            .unwrap_or(zobrist::EMPTY_PLACE);""",
    """            .map(|piece| piece.hash(position))
            .unwrap_or(0);""",
    ['C04'], 'vacated squares contribute 0 instead of the empty-square key')
mut('M08-state-hash-ignores-ep', 'chess/gamestate.rs',
    'unsafe { *zobrist::STATE.get_unchecked(self.bitfield as usize) }',
    'unsafe { *zobrist::STATE.get_unchecked((self.bitfield & 0xF0) as usize) }',
    ['C05', 'C04'], 'en-passant file not mixed into the hash')
mut('M09-pv-walk-stale-hash', 'search.rs',
    """                    print!("{} ", pv.uci_notation());
                    hash = game_clone.hash();""",
    """                    print!("{} ", pv.uci_notation());
                    hash = game_clone.hash() ^ 0;
                    if depth > 2 { hash = game.hash(); }""",
    ['C18'], 'PV walk restarts from the root entry: the first move is printed repeatedly')
mut('M10-aborted-child-scored-zero', 'search.rs',
    """                -alpha - 1,
                -alpha,
                killer_moves,
                history,
            )?;""",
    """                -alpha - 1,
                -alpha,
                killer_moves,
                history,
            ).unwrap_or(0);""",
    ['C07'], 'an aborted null-window probe is treated as score 0 and the search goes on')
mut('M11-research-window', 'search.rs',
    """                    -beta,
                    -test_score,
                    killer_moves,""",
    """                    -beta,
                    -alpha - 1,
                    killer_moves,""",
    ['C09'], 're-search window lower bound off by one')
mut('M11b-cut-ge', 'search.rs',
    """            if test_score > best_score {
                game.push(_move);""",
    """            if test_score > alpha + 1 {
                game.push(_move);""",
    ['C09'], 'null-window result compared against alpha+1: improvements by exactly one point are lost')
mut('M12-mate-score-without-depth', 'search.rs',
    'return Some(Score::MIN + 100 + real_depth as Score);',
    'return Some(Score::MIN + 100);',
    ['C10', 'C09'], 'mate distance not scored')
mut('M13-fen-ep-rank-wrong-side', 'chess/mod.rs',
    """            let row = match self.current_player {
                Player::White => '6',
                Player::Black => '3',
            };
            result.push((b'a' + state.en_passant() as u8) as char);""",
    """            let row = match self.current_player {
                Player::White => '3',
                Player::Black => '6',
            };
            result.push((b'a' + state.en_passant() as u8) as char);""",
    ['C11'], 'en-passant square exported on the wrong rank (re-import is lenient about the rank)')
mut('M14-shared-flag-across-go', 'uci.rs',
    """                        // it won't affect this new search
                        search_is_running = Arc::new(AtomicBool::new(false));""",
    """                        // it won't affect this new search
                        search_is_running.store(false, Relaxed);""",
    ['C14', 'C19'], 'one flag reused for every go: a stale timer stops the next search')
mut('M15-killer-table-32', 'search.rs',
    'let mut killer_moves = [None; MAX_SEARCH_DEPTH as usize];',
    'let mut killer_moves = [None; 32];',
    ['C08'], 'F6 re-introduced')
mut('M16-king-table-swap-without-rescoring', 'chess/mod.rs',
    """            for player in [Player::White, Player::Black] {
                let position = self.get_king_position(player);
                let king = self.get_position(position);
                self.set_position(position, king);
            }""",
    """            for player in [Player::White] {
                let position = self.get_king_position(player);
                let king = self.get_position(position);
                self.set_position(position, king);
            }""",
    ['C16', 'C03'], 'only the white king is re-scored at the phase switch')
mut('M17-history-depends-on-time', 'search.rs',
    'let bonus = (remaining_depth as f64).powf(3.0);',
    'let bonus = (remaining_depth as f64).powf(3.0) + (std::time::SystemTime::now().duration_since(std::time::UNIX_EPOCH).map(|d| d.subsec_nanos() / 1000 % 2).unwrap_or(0)) as f64 * 40.0;',
    ['C19'], 'history bonus depends on the wall clock')
mut('M18-en-passant-record-without-x', 'chess/move_struct.rs',
    """                s.push((*start_col as u8 + b'a') as char);
                s.push('x');
                s.push((*end_col as u8 + b'a') as char);""",
    """                s.push((*start_col as u8 + b'a') as char);
                s.push((*end_col as u8 + b'a') as char);""",
    ['C20'], 'en-passant captures recorded without the capture mark')
mut('M19-budget-not-capped', 'uci.rs',
    """                .saturating_sub(LATENCY_MS_COMPENSATE)
                .min(clock)""",
    """                .saturating_sub(LATENCY_MS_COMPENSATE)""",
    ['C13'], 'thinking time may exceed the clock when the increment is large')
mut('M20-fen-rank-length-unchecked', 'chess/mod.rs',
    """                '/' => {
                    if col != 8 {
                        bail!("Invalid row length");
                    }""",
    """                '/' => {""",
    ['C17'], 'short ranks accepted again')
mut('M21-promotion-letter-k', 'chess/move_struct.rs',
    "'q' | 'Q' => PieceType::Queen,",
    "'q' | 'Q' | 'k' => PieceType::Queen,",
    ['C12'], 'a7a8k accepted as a queen promotion')
mut('M22-autoplay-guard-removed', 'autoplay.rs',
    'while game.len() < 400 {',
    'while game.len() < 4000 {',
    ['C15'], 'F9 re-introduced')
mut('M23-bestmove-before-flag', 'uci.rs',
    """            #[cfg(daniel729_chess_verif)]
            crate::verif_hooks::point("search_clear_flag");
            search_is_running.store(false, Relaxed);

            #[cfg(daniel729_chess_verif)]
            crate::verif_hooks::point("search_print_bestmove");
            if let Some(best_move) = best_move {
                println!("bestmove {}", best_move.uci_notation());
            } else {
                println!("bestmove none");
            }""",
    """            #[cfg(daniel729_chess_verif)]
            crate::verif_hooks::point("search_print_bestmove");
            if let Some(best_move) = best_move {
                println!("bestmove {}", best_move.uci_notation());
            } else {
                println!("bestmove none");
            }

            #[cfg(daniel729_chess_verif)]
            crate::verif_hooks::point("search_clear_flag");
            search_is_running.store(false, Relaxed);""",
    ['C14'], 'F8 re-introduced')
mut('M24-root-cached-move-other-position', 'search.rs',
    """    if let Some(entry) = table.get(&game.hash()) {
        if entry.depth >= depth && entry.flag == NodeType::Exact {""",
    """    if let Some(entry) = table.get(&(game.hash() & !0xFF)).or(table.get(&game.hash())) {
        if entry.depth >= depth && entry.flag == NodeType::Exact {""",
    ['C06'], 'root lookup can hit an entry of another position whose hash differs only in the low byte (needs a collision: expected to survive; shows the limit)')
mut('M25-knight-delta-typo', 'chess/piece.rs',
    """            (1, -2),
            (-2, 1),
            (-1, 2),
            (2, -1),
        ] {
            if let Some(new_pos) = pos.add(delta) {
                let place = game.get_position(new_pos);
                if !place.is_some_and(|piece| piece.owner == game.current_player) {""",
    """            (1, -2),
            (-2, 1),
            (-1, 2),
            (2, -2),
        ] {
            if let Some(new_pos) = pos.add(delta) {
                let place = game.get_position(new_pos);
                if !place.is_some_and(|piece| piece.owner == game.current_player) {""",
    ['C01'], 'one knight jump wrong (the perft tests would catch this one too: control mutant)')
mut('M26-stop-flag-polled-every-other-node', 'search.rs',
    """    if !continue_running.load(Relaxed) {
        // Halt the search early
        return None;
    }""",
    """    if remaining_depth % 2 == 0 && !continue_running.load(Relaxed) {
        // Halt the search early
        return None;
    }""",
    ['C07'], 'stop flag only looked at on even remaining depth: further nodes are expanded after a stop')

def sh(cmd, **kw):
    return subprocess.run(cmd, shell=True, capture_output=True, text=True, **kw)

def main():
    names = sys.argv[1:]
    if sh('git -C /repo status --porcelain').stdout.strip():
        print('refusing: /repo has uncommitted changes'); sys.exit(2)
    os.makedirs('/verif/mutants', exist_ok=True)
    for m in M:
        if names and not any(n in m['name'] for n in names):
            continue
        src = open(m['file']).read()
        if src.count(m['old']) != 1:
            print(m['name'], 'PATTERN-NOT-UNIQUE', src.count(m['old'])); continue
        open(m['file'], 'w').write(src.replace(m['old'], m['new']))
        try:
            b = sh('cd /repo && cargo build --offline 2>&1 | tail -3')
            if 'error' in b.stdout:
                print(m['name'], 'DOES-NOT-COMPILE', b.stdout[-300:]); continue
            res = {}
            for c in m['checks']:
                t = time.time()
                r = sh('cd /verif && ./check %s --tier quick' % c)
                first = [l for l in r.stdout.split('\n') if l.startswith('  what:')][:1]
                res[c] = dict(rc=r.returncode, secs=round(time.time() - t, 1), what=(first[0][8:300] if first else ''))
            caught = [c for c, v in res.items() if v['rc'] == 1]
            print(m['name'], 'CAUGHT by ' + ','.join(caught) if caught else 'SURVIVED', {c: v['rc'] for c, v in res.items()})
            for c, v in res.items():
                if v['what']:
                    print('     ', c, v['what'][:220])
            diff = sh('git -C /repo diff').stdout
            with open('/verif/mutants/results.jsonl', 'a') as f:
                f.write(json.dumps(dict(name=m['name'], note=m['note'], checks=res, caught=caught, diff=diff)) + '\n')
        finally:
            sh('git -C /repo checkout -- .')
    sh('git -C /repo checkout -- .')

main()
