#!/bin/bash
# usage: confirm_seed.sh <ID> <demo command (run inside the worktree)>
# Confirms a seeded change in its scratch worktree /tmp/wt-<ID>, rebased onto /repo's current HEAD:
#   demo passes without the change, fails with it; the change compiles; the existing suite passes with it.
ID="$1"; shift; DEMO="$*"
WT=${WT:-/tmp/wt-$ID}; SD=${SD:-/tmp/seeded-out/$ID}; OUT=$SD/confirm.log
HEAD=$(git -C /repo rev-parse HEAD)
cd $WT || exit 2
{
echo "confirming $ID on /repo HEAD $HEAD at $(date -u +%FT%TZ)"
git checkout -q -- . 2>/dev/null; git clean -fdq src 2>/dev/null
git checkout -q --detach $HEAD || exit 2
echo "--- unchanged tree: build + demo (expect pass)"
cargo build --offline 2>&1 | tail -1
eval "$DEMO" > $SD/confirm_demo_unchanged.log 2>&1; echo "demo exit (unchanged) = $?"
git checkout -q -- . ; git clean -fdq src
echo "--- with the change: apply + build + demo (expect fail)"
git apply $SD/patch.diff && echo "patch applies" || echo "PATCH DOES NOT APPLY"
cargo build --offline 2>&1 | tail -1
eval "$DEMO" > $SD/confirm_demo_changed.log 2>&1; echo "demo exit (changed) = $?"
git status --short | head
echo "--- existing suite with the change (three known slow/failing perft tests skipped)"
cargo test --offline -- --test-threads 16 --skip perft5_kiwipete --skip perft6_position_4 --skip perft7_position_3 2>&1 | grep -E "^test result|FAILED|failed" | head
echo "done $(date -u +%FT%TZ)"
} > $OUT 2>&1
