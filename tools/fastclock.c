/* LD_PRELOAD shim for the real-binary conformance stage of C19: time as seen through clock_gettime runs
 * FASTCLOCK_FACTOR times faster than real time (default 2000). A fixed-depth search must print the same transcript
 * whether a second of wall-clock time looks like a second or like half an hour ("independent of wall-clock time,
 * machine load"): the clock is an environment answer the check decides, not a measurement. Sleeping is not affected. */
#define _GNU_SOURCE
#include <dlfcn.h>
#include <stdlib.h>
#include <time.h>

static int (*real_gettime)(clockid_t, struct timespec *) = 0;
static struct timespec base[16];
static int have_base[16];
static long long factor = 0;

int clock_gettime(clockid_t id, struct timespec *ts) {
    if (!real_gettime) {
        real_gettime = (int (*)(clockid_t, struct timespec *))dlsym(RTLD_NEXT, "clock_gettime");
        const char *f = getenv("FASTCLOCK_FACTOR");
        factor = f ? atoll(f) : 2000;
        if (factor < 1) factor = 1;
    }
    int r = real_gettime(id, ts);
    if (r != 0 || id < 0 || id >= 16 || id == CLOCK_PROCESS_CPUTIME_ID || id == CLOCK_THREAD_CPUTIME_ID) return r;
    if (!have_base[id]) { base[id] = *ts; have_base[id] = 1; return r; }
    long long dns = (long long)(ts->tv_sec - base[id].tv_sec) * 1000000000LL + (ts->tv_nsec - base[id].tv_nsec);
    long long fast = dns * factor;
    long long sec = base[id].tv_sec + fast / 1000000000LL;
    long long nsec = base[id].tv_nsec + fast % 1000000000LL;
    if (nsec >= 1000000000LL) { sec += 1; nsec -= 1000000000LL; }
    ts->tv_sec = (time_t)sec;
    ts->tv_nsec = (long)nsec;
    return r;
}
