#!/bin/bash
# Runs every registered check of a tier in sequence; prints one summary line per check.
cd "$(dirname "$0")/.."
TIER="${1:-quick}"
for id in $(python3 -c "import json;print(' '.join(c['property_id'] for c in json.load(open('MANIFEST.json'))['checks']))"); do
  s=$(date +%s)
  out=$(./check $id --tier $TIER 2>&1); rc=$?
  e=$(date +%s)
  echo "$id rc=$rc $((e-s))s $(echo "$out" | grep -E '^(PASS|FAIL|MACHINERY|KNOWN)' | head -2 | tr '\n' ' ' | cut -c1-200)"
  if [ $rc -ne 0 ]; then echo "$out" | grep -E "VIOLATION|what:|MACHINERY" | head -6; fi
done
