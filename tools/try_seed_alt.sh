#!/bin/bash
# usage: tools/try_seed_alt.sh <patch> <check ids...>
# Like try_seed.sh but never touches /repo: a scratch worktree of /repo HEAD gets the patch, a scratch copy of the
# harness is pointed at it (harness/repo symlink), built into a scratch target dir, and run with VERIF_REPO/VERIF_DIR
# set to scratch locations. Everything lives under /tmp/alt-$$ and is removed at the end.
P="$1"; shift
A=/tmp/alt-$$
mkdir -p $A/verif/evidence $A/verif/replays
git -C /repo worktree add --detach $A/repo HEAD >/dev/null 2>&1 || { echo "cannot create worktree"; exit 2; }
cleanup() { git -C /repo worktree remove --force $A/repo >/dev/null 2>&1; rm -rf $A; }
trap cleanup EXIT
git -C $A/repo apply "$P" || { echo "PATCH DOES NOT APPLY"; exit 2; }
cp -r ${VERIF_SRC:-/verif}/harness $A/verif/harness; rm -f $A/verif/harness/repo; ln -s $A/repo $A/verif/harness/repo
cp ${VERIF_SRC:-/verif}/known_findings.json $A/verif/
export CARGO_NET_OFFLINE=true RUST_BACKTRACE=0 RUST_LIB_BACKTRACE=0 MALLOC_ARENA_MAX=64
export VERIF_DIR=$A/verif VERIF_REPO=$A/repo
# seed the scratch target dir with the dependency builds of the live one (saves a minute)
for prof in checked plain; do
  ( cd $A/verif/harness && RUSTFLAGS="--cfg daniel729_chess_verif" CARGO_TARGET_DIR=$A/target-$prof cargo build --profile $prof --offline 2>&1 | grep -E "^error" -A6 | head -20 )
done
export VERIF_PLAIN_BIN=$A/target-plain/plain/harness
# the real binary of the changed tree (conformance stages of C14 / C19)
case " $* " in *" C14 "*|*" C19 "*|*" C01 "*|*" C15 "*)
  ( cd $A/repo && CARGO_TARGET_DIR=$A/target-repo cargo build --release --offline 2>&1 | grep -E "^error" -A6 | head -20 )
  export VERIF_REAL_BIN=$A/target-repo/release/rustybait
  if cc -shared -fPIC -O1 -o $A/fastclock.so ${VERIF_SRC:-/verif}/tools/fastclock.c -ldl 2>/dev/null; then export VERIF_FASTCLOCK=$A/fastclock.so; fi;;
esac
for id in "$@"; do
  out=$(cd $A/verif && $A/target-checked/checked/harness $id quick 0 2>&1); rc=$?
  echo "== $id rc=$rc $(echo "$out" | grep -E '^(PASS|FAIL|MACHINERY)' | head -1 | cut -c1-160)"
  echo "$out" | grep -E "^  what:" | head -2 | cut -c1-300
done
