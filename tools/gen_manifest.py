#!/usr/bin/env python3
"""Regenerates /verif/MANIFEST.json from the table below (single source of truth)."""
import json, subprocess
IDS = [json.loads(l)['id'] for l in open('/verif/properties.jsonl')]
HOOK_COMMITS = subprocess.run(['git','-C','/repo','log','--format=%H %s'],capture_output=True,text=True).stdout.strip().split('\n')
HOOK_COMMITS = [l.split()[0] for l in HOOK_COMMITS if l.split(' ',1)[1].startswith('verif hooks')]
HOOK_COMMITS.reverse()

MODEL = "reference model refchess.rs (validated at the start of every run against published perft numbers and 41 rule cases); harness compiles /repo/src in place with --cfg daniel729_chess_verif, checked profile (debug assertions + overflow checks)"
C = {}
def chk(pid, technique, text, note, design, engine):
    C[pid] = dict(property_id=pid, quick_cmd=f"./check {pid} --tier quick", thorough_cmd=f"./check {pid} --tier thorough",
        evidence_file=f"/verif/evidence/{pid}.json", replay_cmd_template="./check "+pid+" --replay {path}", engine=engine,
        level_claimed=dict(category="model_checking", text=text, design_ref=design), level_note=note, technique=technique)

chk("C01","explicit-state enumeration of closed position universes (E1) and reachability BFS over the real push (E2), lock-step against a reference rules model",
    "Every position of the stated universes (all <=3-men positions, castling/en-passant/promotion families, two-pawn family, KRk closure, BFS around 9 roots) is visited; in each the engine's checked list must equal the model's legal set and the unchecked list must be a superset with only self-check extras. Exhaustive within the stated bounds, not sampled. Four fixed 398-ply games add the history dimension (state stack near the interface limit); the real binary's `perft <d> <fen> [moves]` divide output for 23 cases is compared with the model (binds main.rs and the release build). Universe UPP: two promoting pawns with one target square, king and an enemy slider anywhere.",
    MODEL+"; bounded by piece count / BFS depth as listed in the evidence", "5/C01", "E1+E2")
chk("C02","explicit-state enumeration (E1/E2): every transition of every visited state replayed on the real push and compared with the model's successor",
    "Every legal move out of every visited state is made on the real Game (loaded from text and reached by replaying the BFS path) and placement, side, rights and en-passant nibble are compared with the model's apply(). Universe UEX puts every move kind (promotion, castling, a second double step) behind a pending en-passant file; four fixed 398-ply games add long histories.",
    MODEL, "5/C02", "E1+E2")
chk("C03","explicit-state enumeration (E1/E2) plus exhaustive nested push/pop sequences to depth 2 (quick) / 3 (thorough) over the unchecked move lists",
    "In every visited state every query and every push;pop of every unchecked move, and all nested sequences up to the nesting depth, must leave the complete internal dump and all public observables bit-identical. Excursions that end with a query in the child (push; get_moves; pop) must leave both move lists of the parent as they were - state that lives outside the dump (lazy caches) shows only in behaviour. Thorough tier: nesting depth 3 on every 8th state of each space, depth 2 on the others.",
    MODEL+"; H1 dump hook (read-only)", "5/C03", "E1+E2")
chk("C04","explicit-state enumeration (E1/E2) against an independent recomputation of the hash from zobrist_bytes.bin",
    "Every visited state (loaded from text and reached by path) and every transition: hash() equals the XOR of the published key-file entries computed by the harness; start position anchored to the README constant.",
    MODEL+"; key-file layout as published in DESIGN.md C04", "5/C04", "E1+E2")
chk("C05","explicit-state enumeration: one global hash->position table over all visited states, plus the complete single-feature neighbourhood of a fixed-stride subset of states",
    "No two distinct visited positions share a hash (exact table, ~10^7 positions quick); for each base state every single-feature variant loaded from text hashes differently; key file pairwise distinct per feature. The hashes carried through castling, en passant and promotion enter the collision table under the successor's key (a wrong but symmetric make/unmake collides with the text-loaded twin).",
    MODEL+"; collision freedom is relative to the visited set", "5/C05", "E1+E6")
chk("C11","explicit-state enumeration (E1/E2) with an independent FEN writer/reader",
    "Every visited state: fen() is six well-formed fields string-equal (fields 1-4) to the model's rendering; re-import has the same core, hash and legal moves. The reached game is also built with push_history (three-digit move numbers on the 398-ply lines).",
    MODEL, "5/C11", "E1+E2")
chk("C12","explicit-state enumeration (E1/E2) for the text round trip; exhaustive input enumeration (E6) of the complete 64x64x7 move-string alphabet through the real `position` command in every state of a family",
    "Round trip of every legal move in every visited state; in ~1300 (quick) states every one of the 28672 move-shaped strings is sent through the real uci_talk `position fen .. moves s` + `show`: accepted iff legal, shown position == model successor, otherwise error and the prior position or no game. The three FEN forms the reader accepts (6, 4, 5 fields) take turns in `position fen <F> moves ...`.",
    MODEL+"; H3 scripted stdin hook; alphabet as stated in the quantifier", "5/C12", "E1+E6")
chk("C16","explicit-state enumeration (E1/E2) against an independent piece-square summation",
    "Every visited state as loaded, as reached by push, by push_history, after push/pop excursions and after one/two further history steps: score() equals the piece-square sum with the king table in force; colour mirror negates; route independence.",
    MODEL+"; tables read from /repo/src/chess/scores.rs as data", "5/C16", "E1+E2")
chk("C17","exhaustive input enumeration (E6): complete 1-edit neighbourhood, all truncations and a 2-edit digit/slash neighbourhood of base FENs, classified by an independent strict reader, in two build flavours",
    "For every base FEN every insertion/deletion/replacement over a 39-symbol alphabet in fields 1-4 is fed to Game::new in the checked and the release-semantics build (and a slice through `position fen`): well-formed sane => faithful import; malformed => refused without crash. A 17 x 19 grid of halfmove/fullmove counters (0..9999) on every base.",
    "model FEN grammar (PGN standard 16.1) in refchess.rs; debatable strings only required not to crash / not to import a different position", "5/C17", "E6")
chk("C20","explicit-state enumeration (E1/E2): every transition played into the record with push_history, display text parsed back and compared with the model",
    "Every visited state and every legal move: Hash/Fen/PGN lines and the parsed diagram against the model successor; every record token parsed under the record grammar and compared part by part; the real `show` command on a slice. `position fen F moves m bad; show`: if a game is still shown it is the game after m alone, record included.",
    MODEL, "5/C20", "E1+E2")

SRCH = "search driven in-process through get_best_move_until_stop / get_best_move_entry with the node-entry hook H2 (poll counter, stop point, depth monitor, table-less switch); legality judged by the reference model"
chk("C06","operation-sequence exploration (E3): all words over {search(position_i, depth_j), NEWGAME} up to length 3 on one shared transposition table, plus every small position once as a root",
    "Every search of every word over 8 families of ~12 related positions (transpositions, other side to move, changed rights, shuffled history that triggers the repetition filter, single-reply, checkmated, stalemated, foreign positions) must announce a model-legal move, none only without legal moves; caller's game unchanged. Histories with INTERRUPTED searches: a search stopped inside every poll (fixed stride on large trees), then the same root again, a table audit (hook H5) and searches of every position whose cached move is not legal there; deep histories: after an unlimited search that completed all 64 iterations, 8 kinds of follow-up searches. Self-play lines: 25 roots x depths 1-5, up to eight searches on one table with the announced move played in between, the table audited after every search.",
    SRCH+"; depth limits <= 3 (4 thorough)", "5/C06", "E3")
chk("C07","stop-point enumeration (E4): for every (root, depth, fresh/warm table) one run per node-entry poll index 0..=P with the flag flipped inside that poll",
    "Every instant at which the stop flag can flip relative to search progress is enumerated for ~3000 (root, depth, table) cases; each run must return a legal move when one exists, enter no further node after the flip, and leave the caller's game unchanged. The fallback path alone (stop at poll 0) over 460k roots of U2, U3, UC, UPIN, UDBL, UCK, UE, UP.",
    SRCH+"; 'promptly' in virtual time (node entries after the flip)", "5/C07", "E4")
chk("C08","operation-sequence exploration (E3) with a depth monitor in the node hook; the whole limit axis 1..255 with three prior histories and unlimited searches under poll watchdogs on tiny roots",
    "No search with limit N may enter a node of iteration depth > N whatever earlier searches left in the table (all words up to length 2/3 over 8 families; every listed limit x {no history, S(p,N+1), S(p,255)} on tiny roots); unlimited searches on 75 tiny roots run to the engine's own end or the poll budget without crash, and a follow-up search on the same table still works. Deep histories: after an unlimited search that completed all 64 iterations, every kind of follow-up search must end by itself within its limit. Repetition roots with a cached exact entry: every shuffle history x m x' m' x, the position first searched without history to depth 3-4, then with it under every smaller limit.",
    SRCH, "5/C08", "E3")
chk("C09","exhaustive comparison over enumerated roots: table-less optimised search vs an unpruned unordered reference negamax on the same tree, five history-table states",
    "For every root of the listed slices (~70k quick) and depths 1-3 (4) the value returned by get_best_move_entry with all table lookups forced to miss equals the exhaustive reference value after clamping mate-range scores, for all five history pre-fills. Iterations 4-5 on roots with <= 12 / <= 6 moves under a 300k-node reference cap. Mate-range scores (within 4000 of the 16-bit limits: the engine's three mate-score families) are clamped as the property's quantifier says. Universe UPQ (under-promotion geometry) and developed-opening roots (castling as the natural move).",
    "reference negamax built on the engine's public generator/evaluation (C01/C16 establish those); skip rule as stated in the property", "5/C09", "E1")
chk("C10","explicit-state enumeration (E1) with a reference mate solver classifying every member; every mating / dead root searched by the real engine",
    "Every member of the listed universes is classified by the model's AND/OR solver; all mate-in-1, forced-mate-in-2, checkmated and stalemated members are searched from a fresh table (unlimited and with depth 3/5): mate in one played and search stops by iteration 3, forced mate kept and search stops by iteration 5, dead roots yield no move. Full-board U4 slices with a defending piece (Q/n, R/n, Q/b, Q/r, q/N) contain the mates in two by zugzwang in which the defender must move a piece of his own. Bare-minor universes (B/n, B/b, N/n, NN) and the 5-men zugzwang universe UZ.",
    MODEL, "5/C10", "E1")
chk("C18","operation-sequence exploration (E3): every `info pv` line of every search of every word replayed on the reference model",
    "All principal variations printed during the C06 exploration (~370k non-empty lines quick), including those reconstructed from entries left by other searches, must be playable move by move on the reference model. Histories with interrupted searches (see C06): every pv line of every follow-up search is replayed on the model. Self-play lines and the free runs of the interrupted stage are audited too (depth 4-5 searches).",
    SRCH, "5/C18", "E3")

E5 = "real uci_talk + search + timer threads on OS threads serialised by a baton scheduler at the hooked schedule points (H2/H3); sequentially consistent interleavings; virtual time"
chk("C13","exhaustive input enumeration (E6): full Cartesian boundary grid G^4 x side and movetime grids through the real command_go in two build flavours; preemption-bounded schedule exploration (E5) of timed scripts",
    "Every (wtime, btime, winc, binc) in G^4 (|G| = 12 quick / 22 thorough) for either side, every movetime alone / with depth / with infinite / with every clock: the budget handed to the timer equals `info time`, is <= the mover's clock resp. the movetime, no go kills the engine (checked and release-semantics builds), monotone in the clock; timed scripts under all interleavings: after the timer fired the search enters at most one more node. Partial and permuted parameter lists (clock without increments, the mover's clock alone, movestogo); the grid on a family of 12 positions (in check, single reply, mate in one, castling/en passant available, middlegame). Unimplemented go sub-commands (searchmoves with a move list, ponder, nodes, mate, movestogo) before, between and after the clock parameters.",
    E5+"; wall-clock latency not modelled", "5/C13", "E5+E6")
chk("C14","stateless preemption-bounded schedule exploration (CHESS-style, E5) of the real UCI threads: all words of length <= 3 (4) over a 9-command alphabet, eager and reactive GUI, all interleavings with <= 2 (3) deviations",
    "1600 scripts (quick) x every schedule within the deviation bound (~190k executions): no panic, no deadlock, every isready answered, bestmove count never exceeds accepted go, every due go answered exactly once with a move legal in the position it was asked about, a position/go sent after all earlier go were answered is never refused, no search left running with nothing to stop it; failing schedules are replayed twice for determinism. Command-grammar sessions (all words of length <= 2 over 107 command-line shapes) at native speed; 14 real-time sessions against the real binary whose only timing-dependent verdict is 'no answer within 90 s'; oracle clause for searches ended by something other than their limit or a command. Sessions with shuffle game records of every length 0-14; sleeping-timer cost model for the scripts about timers that outlive their search.",
    E5, "5/C14", "E5")
chk("C15","checked build as monitor (unsafe-precondition / debug_assert / arrayvec capacity / bounds checks live in every exploration) plus exhaustive enumeration of the capacity corners: mobility catalogue and its complete 1-edit neighbourhood, all game lengths around the interface limit x listed search depths, self-play to its end",
    "Every member of the mobility catalogue (218-move record, 9-queen positions, super-legal border-queen family) and of its 1-edit neighbourhood is generated in both modes for both sides; games of 1,2,397..400 plies through the real `position` command followed by unlimited and depth 1/34/64/255 searches; the real self-play loop with 1/50(/1000) polls per move until it ends. Capacity sweep (tail structures x every realised pseudo-legal count 236..300) puts the buffer boundary inside the batches of promoting pawns; the real binary's `auto` self-play must exit 0. Forced-line roots (both sides have exactly one legal move for ever) after games of up to 399 plies; castling rights the board does not support.",
    "assertions exist at every unsafe site (read: get_unchecked, push_unchecked, unwrap_unchecked, new_unsafe, add_unsafe); legal material assumed to give <= 256 pseudo-legal moves (measured maximum reported)", "5/C15", "E1+E6")
chk("C19","operation-sequence exploration through the real uci_talk: every prior command word ending in ucinewgame vs a fresh engine (byte-identical transcripts); schedule exploration (E5) for schedule independence; second-process repetition",
    "For 8 families every prior word of length 1 (and 2) over {position q; go depth e; wait} followed by ucinewgame and each of ~36 (root, depth) searches must print exactly the fresh engine's transcript; the search thread's lines are identical under every explored interleaving; fresh sessions repeat identically in-process and in a second process. Inert-command words (refused go, stop/wait without a search, show, refused position, uci, junk, second ucinewgame) between ucinewgame and the measured search; (d) the real binary (release build, hooks off) must reproduce every fresh transcript byte for byte, twice. (a3) tables beyond their initial capacity: deep searches after deep prior games and ucinewgame. (e) the real binary under an accelerated clock (LD_PRELOAD shim: clock_gettime runs 2000x faster): deep fixed-depth searches must print the same transcript.",
    E5+"; machine load / memory layout only as a two-point check", "5/C19", "E3+E5")

def main():
    import os
    checks=[C[i] for i in IDS if i in C and os.environ.get('ONLY','')=='' or i in os.environ.get('ONLY','').split(',') and i in C]
    na=[dict(property_id=i, reason="check not built yet (work in progress; DESIGN.md section 5 describes the planned procedure)") for i in IDS if i not in C]
    m=dict(version=1,
      setup_cmd="cd /verif/harness && RUSTFLAGS='--cfg daniel729_chess_verif' CARGO_NET_OFFLINE=true CARGO_TARGET_DIR=/verif/target-checked cargo build --profile checked --offline && RUSTFLAGS='--cfg daniel729_chess_verif' CARGO_NET_OFFLINE=true CARGO_TARGET_DIR=/verif/target-plain cargo build --profile plain --offline && cd /repo && CARGO_NET_OFFLINE=true CARGO_TARGET_DIR=/verif/target-repo cargo build --release --offline",
      hooks=dict(guard="--cfg daniel729_chess_verif",
        enable="RUSTFLAGS='--cfg daniel729_chess_verif'; ./check builds the harness crate /verif/harness, which includes /repo/src/*.rs by #[path], with this flag from the current working tree",
        baseline_off_cmd="cd /repo && cargo test --workspace --no-fail-fast --offline",
        source_commits=HOOK_COMMITS, add_only=True),
      engines=[
        dict(name="E1+E2",path="/verif/harness/src/explore.rs",serves_properties=["C01","C02","C03","C04","C05","C09","C10","C11","C12","C16","C20"],kind_free_text="explicit-state enumeration of closed position universes and layered BFS with the real push as transition function, lock-step against the reference model"),
        dict(name="E3",path="/verif/harness/src/props/e3.rs",serves_properties=["C06","C08","C18"],kind_free_text="operation-sequence explorer over search histories sharing one transposition table (DFS with table clones == stateless re-execution)"),
        dict(name="E4",path="/verif/harness/src/props/c07.rs",serves_properties=["C07"],kind_free_text="stop-point enumerator: one execution per node-entry poll index"),
        dict(name="E5",path="/verif/harness/src/sched.rs",serves_properties=["C13","C14","C19"],kind_free_text="hand-rolled CHESS-style stateless explorer: real threads serialised by a baton, iterative deviation bounding with a poll-is-yield fairness model, deterministic replay"),
        dict(name="E6",path="/verif/harness/src/props/c17.rs",serves_properties=["C05","C12","C13","C15","C17"],kind_free_text="exhaustive input-neighbourhood enumeration"),
      ],
      checks=checks, not_applicable=na,
      notes="See DESIGN.md. ./check <ID> [--tier quick|thorough] [--replay file]; exit 0 held / 1 VIOLATION / 2 machinery error. known_findings.json lists recorded and fixed findings.")
    json.dump(m,open('/verif/MANIFEST.json','w'),indent=1)
    print(len(checks),"checks,",len(na),"pending")
main()
