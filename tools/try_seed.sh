#!/bin/bash
# usage: tools/try_seed.sh <patch> <check ids...>   — applies a seeded change to /repo, runs the quick checks, reverts
P="$1"; shift
if [ -n "$(git -C /repo status --porcelain)" ]; then echo "/repo dirty"; exit 2; fi
git -C /repo apply "$P" || { echo "PATCH DOES NOT APPLY"; exit 2; }
for id in "$@"; do
  out=$(cd /verif && ./check $id --tier quick 2>&1); rc=$?
  echo "== $id rc=$rc $(echo "$out" | grep -E '^(PASS|FAIL|MACHINERY)' | head -1 | cut -c1-160)"
  echo "$out" | grep -E "^  what:" | head -2 | cut -c1-300
done
git -C /repo checkout -- .
