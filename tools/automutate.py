#!/usr/bin/env python3
"""Systematic mutation campaign (complements the hand-written mutants and the agents' seeded changes).

   tools/automutate.py list                       # print the number of mutation sites per file
   tools/automutate.py run <stride> <offset> [file-substring]   # every <stride>-th site from <offset>

Operators (one token changed per mutant): relational (< <= > >= == !=), logical (&& ||), arithmetic (+ - and
+= -=), small integer constants (0 1 2 7 8 -> neighbour), true/false, White<->Black, `the_other()` dropped,
statement deletion for simple one-line statements. Lines inside #[cfg(test)] modules, instrumentation lines
(verif_hooks / cfg(daniel729_chess_verif)), comments and `use` lines are skipped. scores.rs (data tables, part of the
specification) and benchmark/perft drivers are out of scope.

Never touches /repo: a scratch worktree of /repo HEAD and a scratch copy of the harness (pointed at it through the
harness/repo symlink, VERIF_REPO and VERIF_DIR) live under a scratch directory that is removed at the end.
Each mutant: build the checked harness (a compile error = stillborn, not counted), then run the quick checks mapped to
the mutated file, cheapest first, with VERIF_FAIL_FAST=1 (stop at the first violation) until one reports a violation.
Survivors are written with their diff to mutants/auto_results.jsonl for triage (equivalent / out of every property's
scope / a hole to close). This is a screening tool; verdicts always come from ./check."""
import json, os, re, subprocess, sys, time, shutil

VERIF = os.path.dirname(os.path.dirname(os.path.abspath(__file__)))
FILES = ['src/chess/mod.rs', 'src/chess/piece.rs', 'src/chess/position.rs', 'src/chess/gamestate.rs', 'src/chess/move_struct.rs',
         'src/chess/zobrist.rs', 'src/search.rs', 'src/uci.rs', 'src/autoplay.rs']
CHECKS = {
    'src/chess/mod.rs': ['C01', 'C03', 'C16', 'C11', 'C02', 'C04', 'C17', 'C20', 'C12', 'C05', 'C15', 'C09', 'C10', 'C06'],
    'src/chess/piece.rs': ['C01', 'C03', 'C16', 'C11', 'C02', 'C04', 'C20', 'C12', 'C05', 'C15', 'C09', 'C10'],
    'src/chess/position.rs': ['C01', 'C03', 'C11', 'C02', 'C17', 'C20', 'C12', 'C15'],
    'src/chess/gamestate.rs': ['C01', 'C03', 'C11', 'C02', 'C04', 'C17', 'C05', 'C12'],
    'src/chess/move_struct.rs': ['C12', 'C20', 'C01', 'C03', 'C09', 'C10', 'C06'],
    'src/chess/zobrist.rs': ['C04', 'C05', 'C03'],
    'src/search.rs': ['C09', 'C10', 'C08', 'C06', 'C18', 'C07', 'C19', 'C15', 'C14'],
    'src/uci.rs': ['C13', 'C17', 'C12', 'C15', 'C14', 'C19', 'C20', 'C08'],
    'src/autoplay.rs': ['C15'],
}

def sites(repo):
    out = []
    for f in FILES:
        lines = open(os.path.join(repo, f)).read().split('\n')
        in_test = False
        for i, l in enumerate(lines):
            s = l.strip()
            if s.startswith('#[cfg(test)]'):
                in_test = True
            if in_test:
                continue
            if not s or s.startswith('//') or s.startswith('use ') or s.startswith('#[') or 'verif_hooks' in l or 'daniel729_chess_verif' in l:
                continue
            if 'println!' in l or 'print!' in l or 'bail!' in l or 'anyhow!' in l or 'context(' in l or 'debug_assert' in l:
                continue
            code = l.split('//')[0]
            def add(op, new):
                if new != l:
                    out.append((f, i, op, new))
            for m in re.finditer(r' (<=|>=|==|!=|<|>|&&|\|\||\+=|-=|\+|-) ', code):
                t = m.group(1)
                for r in {'<': ['<='], '<=': ['<'], '>': ['>='], '>=': ['>'], '==': ['!='], '!=': ['=='], '&&': ['||'], '||': ['&&'], '+=': ['-='], '-=': ['+='], '+': ['-'], '-': ['+']}[t]:
                    add(f'{t}->{r}@{m.start(1)}', code[:m.start(1)] + r + code[m.end(1):])
            for m in re.finditer(r'(?<![\w.])(\d+)(?![\w.])', code):
                v = int(m.group(1))
                if v in (0, 1, 2, 3, 6, 7, 8) and not re.search(r'\[\w*;\s*$', code[:m.start(1)]):
                    for r in ({0: [1], 1: [0, 2], 2: [1], 3: [2], 6: [5], 7: [6], 8: [7]}[v]):
                        add(f'{v}->{r}@{m.start(1)}', code[:m.start(1)] + str(r) + code[m.end(1):])
            for a, b in (('true', 'false'), ('false', 'true'), ('Player::White', 'Player::Black'), ('Player::Black', 'Player::White')):
                for m in re.finditer(r'\b' + re.escape(a) + r'\b', code):
                    add(f'{a}->{b}@{m.start()}', code[:m.start()] + b + code[m.end():])
            if '.the_other()' in code:
                add('drop the_other', code.replace('.the_other()', '', 1))
            if re.match(r'^\s*(self\.|state\.|\w+\.set_|\*?\w+(\[[^\]]*\])? [-+^|&]?= ).*;\s*$', code) and 'let ' not in code:
                add('delete statement', re.match(r'^\s*', code).group(0) + '();')
    return out

def sh(cmd, env=None, timeout=None, cwd=None):
    p = subprocess.run(cmd, shell=True, capture_output=True, text=True, env=env, timeout=timeout, cwd=cwd)
    return p.returncode, p.stdout + p.stderr

def main():
    if len(sys.argv) < 2:
        print(__doc__); return
    head = subprocess.check_output(['git', '-C', '/repo', 'rev-parse', 'HEAD'], text=True).strip()
    if sys.argv[1] == 'list':
        ss = sites('/repo')
        from collections import Counter
        print(Counter(s[0] for s in ss), len(ss)); return
    stride, offset = int(sys.argv[2]), int(sys.argv[3])
    only = sys.argv[4] if len(sys.argv) > 4 else ''
    A = '/tmp/am-%d' % os.getpid()
    os.makedirs(A + '/verif/evidence'); os.makedirs(A + '/verif/replays')
    subprocess.check_call(['git', '-C', '/repo', 'worktree', 'add', '--detach', A + '/repo', head], stdout=subprocess.DEVNULL, stderr=subprocess.DEVNULL)
    try:
        shutil.copytree(VERIF + '/harness', A + '/verif/harness', symlinks=True)
        os.remove(A + '/verif/harness/repo'); os.symlink(A + '/repo', A + '/verif/harness/repo')
        shutil.copy(VERIF + '/known_findings.json', A + '/verif/')
        env = dict(os.environ, CARGO_NET_OFFLINE='true', RUST_BACKTRACE='0', RUST_LIB_BACKTRACE='0', MALLOC_ARENA_MAX='64', VERIF_DIR=A + '/verif', VERIF_REPO=A + '/repo',
                   RUSTFLAGS='--cfg daniel729_chess_verif', VERIF_FAIL_FAST='1', VERIF_PLAIN_BIN=A + '/target-plain/plain/harness')
        def build(prof):
            return sh(f'cd {A}/verif/harness && CARGO_TARGET_DIR={A}/target-{prof} cargo build --profile {prof} --offline', env=env)
        rc, o = build('checked'); assert rc == 0, o[-2000:]
        rc, o = build('plain'); assert rc == 0, o[-2000:]
        ss = [s for s in sites(A + '/repo') if only in s[0]]
        chosen = ss[offset::stride]
        print(f'{len(ss)} sites, running {len(chosen)} (stride {stride}, offset {offset}) on {head[:7]}', flush=True)
        res = open(VERIF + '/mutants/auto_results.jsonl', 'a')
        for (f, i, op, new) in chosen:
            path = os.path.join(A, 'repo', f)
            orig = open(path).read()
            lines = orig.split('\n'); old = lines[i]; lines[i] = new
            open(path, 'w').write('\n'.join(lines))
            rec = dict(file=f, line=i + 1, op=op, old=old.strip(), new=new.strip(), head=head[:7])
            t0 = time.time()
            try:
                rc, o = build('checked')
                if rc != 0:
                    rec['status'] = 'stillborn'
                else:
                    need_plain = False
                    rec['status'] = 'survived'; rec['ran'] = []
                    for c in CHECKS[f]:
                        if c in ('C14', 'C19', 'C01', 'C15') and 'VERIF_REAL_BIN' not in env:
                            sh(f'cd {A}/repo && CARGO_TARGET_DIR={A}/target-repo cargo build --release --offline', env={k: v for k, v in env.items() if k != 'RUSTFLAGS'})
                            env['VERIF_REAL_BIN'] = A + '/target-repo/release/rustybait'
                        elif c in ('C14', 'C19', 'C01', 'C15'):
                            sh(f'cd {A}/repo && CARGO_TARGET_DIR={A}/target-repo cargo build --release --offline', env={k: v for k, v in env.items() if k != 'RUSTFLAGS'})
                        if c in ('C13', 'C17', 'C08', 'C15') and not need_plain:
                            rc, o = build('plain'); need_plain = True
                            if rc != 0:
                                rec['status'] = 'stillborn'; break
                        try:
                            rc, o = sh(f'cd {A}/verif && {A}/target-checked/checked/harness {c} quick 0', env=env, timeout=900)
                        except subprocess.TimeoutExpired:
                            rc, o = 1, 'FAILFAST timeout (check ran > 900 s: treated as hang)'
                        rec['ran'].append(c)
                        if rc == 1 or 'FAILFAST' in o or 'VIOLATION' in o:
                            m = re.search(r'(FAILFAST.*|  what:.*)', o)
                            rec['status'] = 'killed'; rec['by'] = c; rec['what'] = (m.group(1) if m else o[-300:])[:300]
                            break
                        if rc != 0:
                            rec['status'] = 'machinery'; rec['by'] = c; rec['what'] = o[-400:]
                            break
            finally:
                open(path, 'w').write(orig)
            rec['secs'] = round(time.time() - t0, 1)
            res.write(json.dumps(rec) + '\n'); res.flush()
            print(rec['status'], f, i + 1, op, '|', new.strip()[:90], '|', rec.get('by', ''), rec['secs'], flush=True)
    finally:
        subprocess.call(['git', '-C', '/repo', 'worktree', 'remove', '--force', A + '/repo'], stdout=subprocess.DEVNULL, stderr=subprocess.DEVNULL)
        shutil.rmtree(A, ignore_errors=True)

main()
