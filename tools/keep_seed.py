#!/usr/bin/env python3
"""keep_seed.py <ID> <property> "<needs>" "<caught by>" : copies a confirmed seeded change into /verif/seeded/<ID>/"""
import sys, os, shutil, json, re
sid, prop, needs, caught = sys.argv[1:5]
src = '/tmp/seeded-out/%s' % sid.split('-')[0] if not os.path.isdir('/tmp/seeded-out/%s' % sid) else '/tmp/seeded-out/%s' % sid
dst = '/verif/seeded/%s' % sid
os.makedirs(dst, exist_ok=True)
for f in os.listdir(src):
    if os.path.isdir(os.path.join(src, f)) or (f.endswith(".log") and not (f.startswith("confirm") or f.startswith("try_"))):
        continue
    shutil.copy(os.path.join(src, f), os.path.join(dst, f))
conf = open(os.path.join(src, 'confirm.log')).read() if os.path.exists(os.path.join(src, 'confirm.log')) else ''
meta = dict(id=sid, breaks_property=prop, needs_to_manifest=needs, produced_by='independent sub-agent given only the property text and a scratch worktree',
            confirmed=dict(log='confirm.log', summary=[l for l in conf.split('\n') if re.search(r'demo exit|patch applies|test result|FAILED|confirming', l)]),
            checks_run_against_it=caught)
json.dump(meta, open(os.path.join(dst, 'meta.json'), 'w'), indent=1)
print('kept', dst)
