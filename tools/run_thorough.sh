#!/bin/bash
# Runs the thorough tier of the listed checks (default: all) one after the other, each under a wall-clock limit
# (default 30 min; a check that hits it is reported as TIMEOUT and must be slimmed down). Usage: tools/run_thorough.sh [limit_min] [ids...]
cd "$(dirname "$0")/.."
LIM="${1:-30}"; shift || true
IDS="$@"; [ -n "$IDS" ] || IDS=$(python3 -c "import json;print(' '.join(c['property_id'] for c in json.load(open('MANIFEST.json'))['checks']))")
for id in $IDS; do
  s=$(date +%s)
  out=$(timeout ${LIM}m ./check $id --tier thorough 2>&1); rc=$?
  e=$(date +%s)
  [ $rc -eq 124 ] && echo "$id TIMEOUT after ${LIM} min" || echo "$id rc=$rc $((e-s))s $(echo "$out" | grep -E '^(PASS|FAIL|MACHINERY)' | head -1 | cut -c1-170)"
  if [ $rc -ne 0 ] && [ $rc -ne 124 ]; then echo "$out" | grep -E "VIOLATION|what:|MACHINERY" | head -6 | cut -c1-300; fi
done
